/-
  The cache-free evaluator computes exactly the satisfying points: `evalPure_correct`.
-/
import HctlProofs.Lemmas.LoopSem
namespace Hctl
open Kripke

/-! ### sequence-level facts -/

theorem exists_least {P : Nat → Prop} (h : ∃ i, P i) : ∃ i, P i ∧ ∀ j, j < i → ¬ P j := by
  obtain ⟨i, hi⟩ := h
  induction i using Nat.strongRecOn with
  | _ i ih =>
    classical
    by_cases hex : ∃ j, j < i ∧ P j
    · obtain ⟨j, hj, hPj⟩ := hex
      exact ih j hj hPj
    · exact ⟨i, hi, fun j hj hPj => hex ⟨j, hj, hPj⟩⟩

/-- weak until on one path: `φ W ψ  ≡  ¬(¬ψ U (¬φ ∧ ¬ψ))` -/
theorem wuntil_dual (φ ψ : Nat → Prop) (π : Nat → Nat) :
    (untilOn φ ψ π ∨ ∀ i, φ (π i)) ↔ ¬ untilOn (fun t => ¬ ψ t) (fun t => ¬ φ t ∧ ¬ ψ t) π := by
  constructor
  · rintro h ⟨i, ⟨hnφ, hnψ⟩, hbefore⟩
    cases h with
    | inl h =>
      obtain ⟨k, hψk, hφk⟩ := h
      rcases Nat.lt_trichotomy k i with hlt | heq | hgt
      · exact hbefore k hlt hψk
      · subst heq; exact hnψ hψk
      · exact hnφ (hφk i hgt)
    | inr h => exact hnφ (h i)
  · intro hn
    classical
    by_cases hall : ∀ i, φ (π i)
    · exact Or.inr hall
    · left
      have hex : ∃ i, ¬ φ (π i) := by
        apply Classical.byContradiction
        intro hne
        exact hall (fun i => Classical.byContradiction (fun h => hne ⟨i, h⟩))
      obtain ⟨i, hi, hleast⟩ := exists_least hex
      have hψ : ∃ k, k ≤ i ∧ ψ (π k) := by
        apply Classical.byContradiction
        intro hne
        apply hn
        refine ⟨i, ⟨hi, fun h => hne ⟨i, Nat.le_refl i, h⟩⟩, fun j hj h => hne ⟨j, Nat.le_of_lt hj, h⟩⟩
      obtain ⟨k, hk, hψk⟩ := hψ
      refine ⟨k, hψk, fun j hj => ?_⟩
      exact Classical.byContradiction (fun h => hleast j (Nat.lt_of_lt_of_le hj hk) h)

section glue
variable (G : Graph) (c : Nat)

theorem ef_path_iff (φ : Nat → Prop) (s : Nat) :
    (∃ π : Path (G.R c) s, ∃ i, φ (π.π i)) ↔ EUi (G.R c) (fun _ => True) φ s := by
  rw [← EUp_iff_EUi (total_R G c)]
  constructor
  · rintro ⟨π, i, h⟩; exact ⟨π, i, h, fun _ _ => trivial⟩
  · rintro ⟨π, i, h, _⟩; exact ⟨π, i, h⟩

theorem eu_path_iff (φ ψ : Nat → Prop) (s : Nat) :
    (∃ π : Path (G.R c) s, untilOn φ ψ π.π) ↔ EUi (G.R c) φ ψ s :=
  EUp_iff_EUi (total_R G c) φ ψ s

theorem au_path_iff (φ ψ : Nat → Prop) (s : Nat) :
    (∀ π : Path (G.R c) s, untilOn φ ψ π.π) ↔ AUi (G.R c) φ ψ s :=
  AUp_iff_AUi (total_R G c) φ ψ s

theorem eg_path_iff (φ : Nat → Prop) (s : Nat) :
    (∃ π : Path (G.R c) s, ∀ i, φ (π.π i)) ↔ EGc (G.R c) φ s :=
  EGp_iff_EGc φ s

theorem af_path_iff (φ : Nat → Prop) (s : Nat) :
    (∀ π : Path (G.R c) s, ∃ i, φ (π.π i)) ↔ ¬ EGc (G.R c) (fun t => ¬ φ t) s := by
  rw [← eg_path_iff]
  constructor
  · rintro h ⟨π, hn⟩
    obtain ⟨i, hi⟩ := h π
    exact hn i hi
  · intro hn π
    apply Classical.byContradiction
    intro hne
    exact hn ⟨π, fun i hi => hne ⟨i, hi⟩⟩

theorem ag_path_iff (φ : Nat → Prop) (s : Nat) :
    (∀ π : Path (G.R c) s, ∀ i, φ (π.π i)) ↔ ¬ EUi (G.R c) (fun _ => True) (fun t => ¬ φ t) s := by
  rw [← ef_path_iff]
  constructor
  · rintro h ⟨π, i, hn⟩; exact hn (h π i)
  · intro hn π i
    apply Classical.byContradiction
    intro hne
    exact hn ⟨π, i, hne⟩

theorem ew_path_iff (φ ψ : Nat → Prop) (s : Nat) :
    (∃ π : Path (G.R c) s, untilOn φ ψ π.π ∨ ∀ i, φ (π.π i)) ↔
      ¬ AUi (G.R c) (fun t => ¬ ψ t) (fun t => ¬ φ t ∧ ¬ ψ t) s := by
  rw [← au_path_iff]
  constructor
  · rintro ⟨π, h⟩ hall
    exact (wuntil_dual φ ψ π.π).mp h (hall π)
  · intro hn
    apply Classical.byContradiction
    intro hne
    apply hn
    intro π
    apply Classical.byContradiction
    intro hnu
    exact hne ⟨π, (wuntil_dual φ ψ π.π).mpr hnu⟩

theorem aw_path_iff (φ ψ : Nat → Prop) (s : Nat) :
    (∀ π : Path (G.R c) s, untilOn φ ψ π.π ∨ ∀ i, φ (π.π i)) ↔
      ¬ EUi (G.R c) (fun t => ¬ ψ t) (fun t => ¬ φ t ∧ ¬ ψ t) s := by
  rw [← eu_path_iff]
  constructor
  · rintro h ⟨π, hu⟩
    exact (wuntil_dual φ ψ π.π).mp (h π) hu
  · intro hn π
    apply (wuntil_dual φ ψ π.π).mpr
    intro hu
    exact hn ⟨π, hu⟩

end glue

end Hctl

namespace Hctl
open Kripke

section temporal
variable {E : Env} (hE : EnvOK E) (hG : GraphWF E.G)
include hE hG

theorem sem_ef {U0 st U a : CSet} {d : Nat} {φ : Point → Prop} (hU : UnitOK E U0 st U d) (ha : Sem E a U φ) :
    Sem E (Ops.evalEfSat E U a) U (fun p => ∃ π : Path (E.G.R p.c) p.s, ∃ i, φ (p.setS (π.π i))) :=
  (sem_eu hE hG hU sem_unit ha).iff (fun p _ _ => (ef_path_iff E.G p.c (fun t => φ (p.setS t)) p.s).symm)

theorem sem_eu' {U0 st U a b : CSet} {d : Nat} {φ ψ : Point → Prop} (hU : UnitOK E U0 st U d)
    (ha : Sem E a U φ) (hb : Sem E b U ψ) :
    Sem E (Ops.evalEuSat E a b) U (fun p => ∃ π : Path (E.G.R p.c) p.s,
      untilOn (fun t => φ (p.setS t)) (fun t => ψ (p.setS t)) π.π) :=
  (sem_eu hE hG hU ha hb).iff (fun p _ _ => (eu_path_iff E.G p.c _ _ p.s).symm)

theorem sem_au' {U0 st U a b : CSet} {d : Nat} {φ ψ : Point → Prop} (hU : UnitOK E U0 st U d)
    (ha : Sem E a U φ) (hb : Sem E b U ψ) :
    Sem E (Ops.evalAu E U a b st) U (fun p => ∀ π : Path (E.G.R p.c) p.s,
      untilOn (fun t => φ (p.setS t)) (fun t => ψ (p.setS t)) π.π) :=
  (sem_au hE hG hU ha hb).iff (fun p _ _ => (au_path_iff E.G p.c _ _ p.s).symm)

theorem sem_eg' {U0 st U a : CSet} {d : Nat} {φ : Point → Prop} (hU : UnitOK E U0 st U d) (ha : Sem E a U φ) :
    Sem E (Ops.evalEg E a st) U
      (fun p => ∃ π : Path (E.G.R p.c) p.s, ∀ i, φ (p.setS (π.π i))) :=
  (sem_eg hE hG hU ha).iff (fun p _ _ => (eg_path_iff E.G p.c (fun t => φ (p.setS t)) p.s).symm)

theorem sem_af {U0 st U a : CSet} {d : Nat} {φ : Point → Prop} (hU : UnitOK E U0 st U d) (ha : Sem E a U φ) :
    Sem E (Ops.evalAf E U a st) U
      (fun p => ∀ π : Path (E.G.R p.c) p.s, ∃ i, φ (p.setS (π.π i))) :=
  (sem_neg (sem_eg hE hG hU (sem_neg ha))).iff
    (fun p _ _ => (af_path_iff E.G p.c (fun t => φ (p.setS t)) p.s).symm)

theorem sem_ag {U0 st U a : CSet} {d : Nat} {φ : Point → Prop} (hU : UnitOK E U0 st U d) (ha : Sem E a U φ) :
    Sem E (Ops.evalAg E U a) U
      (fun p => ∀ π : Path (E.G.R p.c) p.s, ∀ i, φ (p.setS (π.π i))) :=
  (sem_neg (sem_eu hE hG hU sem_unit (sem_neg ha))).iff
    (fun p _ _ => (ag_path_iff E.G p.c (fun t => φ (p.setS t)) p.s).symm)

theorem sem_ew {U0 st U a b : CSet} {d : Nat} {φ ψ : Point → Prop} (hU : UnitOK E U0 st U d)
    (ha : Sem E a U φ) (hb : Sem E b U ψ) :
    Sem E (Ops.evalEw E U a b st) U (fun p => ∃ π : Path (E.G.R p.c) p.s,
      untilOn (fun t => φ (p.setS t)) (fun t => ψ (p.setS t)) π.π ∨ ∀ i, φ (p.setS (π.π i))) :=
  (sem_neg (sem_au hE hG hU (sem_neg hb) (sem_and (sem_neg ha) (sem_neg hb)))).iff
    (fun p _ _ => (ew_path_iff E.G p.c (fun t => φ (p.setS t)) (fun t => ψ (p.setS t)) p.s).symm)

theorem sem_aw {U0 st U a b : CSet} {d : Nat} {φ ψ : Point → Prop} (hU : UnitOK E U0 st U d)
    (ha : Sem E a U φ) (hb : Sem E b U ψ) :
    Sem E (Ops.evalAw E U a b) U (fun p => ∀ π : Path (E.G.R p.c) p.s,
      untilOn (fun t => φ (p.setS t)) (fun t => ψ (p.setS t)) π.π ∨ ∀ i, φ (p.setS (π.π i))) :=
  (sem_neg (sem_eu hE hG hU (sem_neg hb) (sem_and (sem_neg ha) (sem_neg hb)))).iff
    (fun p _ _ => (aw_path_iff E.G p.c (fun t => φ (p.setS t)) (fun t => ψ (p.setS t)) p.s).symm)

end temporal

/-! ### hybrid operators -/

section hybrid
variable {E : Env} (hE : EnvOK E) (hG : GraphWF E.G)
include hE hG

theorem len_v {p : Point} (hp : p ∈ E.pts) : p.v.length = E.G.k := by
  rw [hE.pts_eq] at hp; exact ((mem_points E.G p).mp hp).2.2.1

theorem getV_lt' {p : Point} (i : Nat) (hp : p ∈ E.pts) : p.getV i < E.G.nS := by
  rw [hE.pts_eq] at hp; exact getV_lt i hp

theorem s_lt' {p : Point} (hp : p ∈ E.pts) : p.s < E.G.nS := by
  rw [hE.pts_eq] at hp; exact s_lt hp

theorem mem_projectOutVar {a : CSet} {i : Nat} {p : Point} :
    Ops.projectOutVar E i a p = true ↔ ∃ t, t < E.G.nS ∧ a (p.setV i t) = true := by
  simp only [Ops.projectOutVar, any_range_iff]

theorem mem_projectOutState {a : CSet} {p : Point} :
    Ops.projectOutState E a p = true ↔ ∃ t, t < E.G.nS ∧ a (p.setS t) = true := by
  simp only [Ops.projectOutState, any_range_iff]

theorem sem_jump {U0 st U c : CSet} {d : Nat} {φ : Point → Prop} (hU : UnitOK E U0 st U d) (hc : Sem E c U φ)
    (i : Nat) : Sem E (Ops.evalJump E U c i) U (fun p => φ (p.setS (p.getV i))) := by
  intro p hp
  simp only [Ops.evalJump]
  rw [mem_projectOutState hE hG]
  constructor
  · rintro ⟨t, ht, h⟩
    simp only [CSet.inter, Ops.comparatorVarState, Bool.and_eq_true, beq_iff_eq, setS_getV, setS_s] at h
    obtain ⟨⟨hu, hv⟩, hct⟩ := h
    have hq := setS_mem' hE hG hp ht
    have := (hc _ hq).mp hct
    rw [hU.stateIndep p hp t ht] at hu
    exact ⟨hu, by rw [hv]; exact this.2⟩
  · rintro ⟨hu, hφ⟩
    have ht := getV_lt' hE hG i hp
    have hq := setS_mem' hE hG hp ht
    refine ⟨p.getV i, ht, ?_⟩
    simp only [CSet.inter, Ops.comparatorVarState, Bool.and_eq_true, beq_iff_eq, setS_getV, setS_s]
    have huq : U (p.setS (p.getV i)) = true := by rw [hU.stateIndep p hp _ ht]; exact hu
    exact ⟨⟨huq, trivial⟩, (hc _ hq).mpr ⟨huq, hφ⟩⟩

/-- the three quantifiers, for a child evaluated in a universe `U'` = `U` restricted by a condition `δ` -/
theorem sem_bind_gen {U0 st U U' c : CSet} {i : Nat} {φ δ : Point → Prop} (hik : i < E.G.k)
    (hU : UnitOK E U0 st U i) (hU' : ∀ q ∈ E.pts, (U' q = true ↔ (U q = true ∧ δ q)))
    (hc : Sem E c U' φ) :
    Sem E (Ops.evalBind E U c i) U (fun p => δ (p.setV i p.s) ∧ φ (p.setV i p.s)) := by
  intro p hp
  simp only [Ops.evalBind]
  rw [mem_projectOutVar hE hG]
  have hlen : i < p.v.length := by rw [len_v hE hG hp]; exact hik
  have hps := s_lt' hE hG hp
  constructor
  · rintro ⟨t, ht, h⟩
    simp only [CSet.inter, Ops.comparatorVarState, Bool.and_eq_true, beq_iff_eq, setV_s] at h
    obtain ⟨⟨hu, hv⟩, hct⟩ := h
    rw [setV_getV_same p i t hlen] at hv
    subst hv
    have hq := setV_mem' hE hG hp (i := i) hps
    have h1 := (hc _ hq).mp hct
    have h2 := (hU' _ hq).mp h1.1
    rw [hU.indepFrom p hp i _ (Nat.le_refl i) hps] at hu
    exact ⟨hu, h2.2, h1.2⟩
  · rintro ⟨hu, hδ, hφ⟩
    have hq := setV_mem' hE hG hp (i := i) hps
    have huq : U (p.setV i p.s) = true := by rw [hU.indepFrom p hp i _ (Nat.le_refl i) hps]; exact hu
    refine ⟨p.s, hps, ?_⟩
    simp only [CSet.inter, Ops.comparatorVarState, Bool.and_eq_true, beq_iff_eq, setV_s]
    exact ⟨⟨huq, setV_getV_same p i _ hlen⟩, (hc _ hq).mpr ⟨(hU' _ hq).mpr ⟨huq, hδ⟩, hφ⟩⟩

theorem sem_exists_gen {U0 st U U' c : CSet} {i : Nat} {φ δ : Point → Prop}
    (hU : UnitOK E U0 st U i) (hU' : ∀ q ∈ E.pts, (U' q = true ↔ (U q = true ∧ δ q)))
    (hc : Sem E c U' φ) :
    Sem E (Ops.evalExists E c i) U (fun p => ∃ t, t < E.G.nS ∧ δ (p.setV i t) ∧ φ (p.setV i t)) := by
  intro p hp
  simp only [Ops.evalExists]
  rw [mem_projectOutVar hE hG]
  constructor
  · rintro ⟨t, ht, h⟩
    have hq := setV_mem' hE hG hp (i := i) ht
    have h1 := (hc _ hq).mp h
    have h2 := (hU' _ hq).mp h1.1
    refine ⟨?_, t, ht, h2.2, h1.2⟩
    rw [← hU.indepFrom p hp i t (Nat.le_refl i) ht]; exact h2.1
  · rintro ⟨hu, t, ht, hδ, hφ⟩
    have hq := setV_mem' hE hG hp (i := i) ht
    have huq : U (p.setV i t) = true := by rw [hU.indepFrom p hp i t (Nat.le_refl i) ht]; exact hu
    exact ⟨t, ht, (hc _ hq).mpr ⟨(hU' _ hq).mpr ⟨huq, hδ⟩, hφ⟩⟩

theorem sem_forall_gen {U0 st U U' c : CSet} {i : Nat} {φ δ : Point → Prop}
    (hU : UnitOK E U0 st U i) (hU' : ∀ q ∈ E.pts, (U' q = true ↔ (U q = true ∧ δ q)))
    (hc : Sem E c U' φ) :
    Sem E (Ops.evalNeg U (Ops.evalExists E (Ops.evalNeg U' c) i)) U
      (fun p => ∀ t, t < E.G.nS → δ (p.setV i t) → φ (p.setV i t)) := by
  have h1 : Sem E (Ops.evalNeg U' c) U' (fun p => ¬ φ p) := sem_neg hc
  have h2 := sem_neg (sem_exists_gen hE hG hU hU' h1)
  refine h2.iff (fun p _ _ => ?_)
  constructor
  · intro hn t ht hδ
    apply Classical.byContradiction
    intro hc'
    exact hn ⟨t, ht, hδ, hc'⟩
  · rintro hall ⟨t, ht, hδ, hn⟩
    exact hn (hall t ht hδ)

theorem mem_validDomain {U0 st U ds : CSet} {d i : Nat} (hU : UnitOK E U0 st U d) {q : Point} (hq : q ∈ E.pts) :
    Ops.validDomain E U ds i q = true ↔ (U q = true ∧ ds (q.setS (q.getV i)) = true) := by
  simp only [Ops.validDomain]
  rw [mem_projectOutState hE hG]
  constructor
  · rintro ⟨t, ht, h⟩
    simp only [CSet.inter, Ops.comparatorVarState, Bool.and_eq_true, beq_iff_eq, setS_getV, setS_s] at h
    obtain ⟨hds, hu, hv⟩ := h
    rw [hU.stateIndep q hq t ht] at hu
    exact ⟨hu, by rw [hv]; exact hds⟩
  · rintro ⟨hu, hds⟩
    have ht := getV_lt' hE hG i hq
    refine ⟨q.getV i, ht, ?_⟩
    simp only [CSet.inter, Ops.comparatorVarState, Bool.and_eq_true, beq_iff_eq, setS_getV, setS_s]
    exact ⟨hds, by rw [hU.stateIndep q hq _ ht]; exact hu, trivial⟩

end hybrid
end Hctl

namespace Hctl
open Kripke

/-- variables are named by quantifier nesting depth (what preprocessing produces): the quantifier at
depth `d` binds the variable stored at index `d`, and the graph has enough spare variable sets -/
def WellNamed (k : Nat) : Nat → Tree → Prop
  | _, .atom _ => True
  | d, .un _ c => WellNamed k d c
  | d, .bin _ l r => WellNamed k d l ∧ WellNamed k d r
  | d, .hyb o x _ c => if o = .jump then WellNamed k d c else varId x = d ∧ d < k ∧ WellNamed k (d + 1) c

/-- every domain label of the formula has a context set -/
def DomsIn (K : SemCtx) : Tree → Prop
  | .atom _ => True
  | .un _ c => DomsIn K c
  | .bin _ l r => DomsIn K l ∧ DomsIn K r
  | .hyb _ _ none c => DomsIn K c
  | .hyb _ _ (some l) c => (∃ a, K.dom l = some a) ∧ DomsIn K c

/-- domain sets do not depend on the spare variable sets -/
structure CtxOK (E : Env) (K : SemCtx) : Prop where
  domIndep : ∀ l a, K.dom l = some a → ∀ p ∈ E.pts, ∀ i t, t < E.G.nS → a (p.setV i t) = a p

theorem UnitOK.weaken {E : Env} {U0 st U : CSet} {d : Nat} (h : UnitOK E U0 st U d) :
    UnitOK E U0 st U (d + 1) :=
  ⟨h.steady, h.stateIndep, fun p hp i t hi ht => h.indepFrom p hp i t (Nat.le_of_succ_le hi) ht, h.sub0⟩

section main
variable {E : Env} (hE : EnvOK E) (hG : GraphWF E.G)
include hE hG

/-- the universe restricted by a domain for the variable at index `d` -/
theorem restricted_unit {U0 st U ds : CSet} {d : Nat} (K : SemCtx) (hK : CtxOK E K) {l : Name}
    (hl : K.dom l = some ds) (hU : UnitOK E U0 st U d) :
    let U' := E.tab (U.inter (Ops.validDomain E U ds d))
    (∀ q ∈ E.pts, (U' q = true ↔ (U q = true ∧ ds (q.setS (q.getV d)) = true))) ∧ UnitOK E U0 st U' (d + 1) := by
  intro U'
  have hmem : ∀ q ∈ E.pts, (U' q = true ↔ (U q = true ∧ ds (q.setS (q.getV d)) = true)) := by
    intro q hq
    show E.tab _ q = true ↔ _
    rw [hE.tab_ok _ q hq]
    simp only [CSet.inter, Bool.and_eq_true]
    rw [mem_validDomain hE hG hU hq]
    constructor
    · rintro ⟨_, h⟩; exact h
    · intro h; exact ⟨h.1, h⟩
  refine ⟨hmem, hU.steady, ?_, ?_, ?_⟩
  · intro p hp t ht
    have hq := setS_mem' hE hG hp ht
    have h1 := hmem _ hq
    have h2 := hmem _ hp
    rw [hU.stateIndep p hp t ht] at h1
    simp only [setS_getV, setS_setS] at h1
    exact Bool.eq_iff_iff.mpr (h1.trans h2.symm)
  · intro p hp i t hi ht
    have hq := setV_mem' hE hG hp (i := i) ht
    have h1 := hmem _ hq
    have h2 := hmem _ hp
    have hne : i ≠ d := by omega
    rw [hU.indepFrom p hp i t (by omega) ht, setV_getV_ne p i d t hne] at h1
    have hx := getV_lt' hE hG d hp
    have : ds ((p.setV i t).setS (p.getV d)) = ds (p.setS (p.getV d)) := by
      rw [setV_setS]
      exact hK.domIndep l ds hl _ (setS_mem' hE hG hp hx) i t ht
    rw [this] at h1
    exact Bool.eq_iff_iff.mpr (h1.trans h2.symm)
  · intro p hp h
    exact hU.sub0 p hp ((hmem p hp).mp h).1

theorem dom_at_setV {ds : CSet} (K : SemCtx) (hK : CtxOK E K) {l : Name} (hl : K.dom l = some ds)
    {p : Point} (hp : p ∈ E.pts) {d t : Nat} (hd : d < E.G.k) (ht : t < E.G.nS) :
    ds ((p.setV d t).setS ((p.setV d t).getV d)) = ds (p.setS t) := by
  have hlen : d < p.v.length := by rw [len_v hE hG hp]; exact hd
  rw [setV_getV_same p d t hlen, setV_setS]
  exact hK.domIndep l ds hl _ (setS_mem' hE hG hp ht) d t ht

/-- MAIN: on every graph, for every well-named formula and every admissible unit set, the cache-free
evaluator returns exactly the points of the unit that satisfy the formula. -/
theorem evalPure_correct (K : SemCtx) (hK : CtxOK E K) (U0 st : CSet) :
    ∀ t d U, WellNamed E.G.k d t → DomsIn K t → UnitOK E U0 st U d →
      Sem E (Eval.evalPure E st K.wild K.dom t U) U (sat E.G K t) := by
  intro t
  induction t with
  | atom a =>
    intro d U _ _ hU p hp
    cases a with
    | tt => simp [Eval.evalPure, sat]
    | ff => simp [Eval.evalPure, sat, CSet.empty]
    | var n =>
      simp only [Eval.evalPure, sat, Ops.comparatorVarState, Bool.and_eq_true, beq_iff_eq]
    | prop n =>
      simp only [Eval.evalPure, sat]
      cases hl : E.G.label n with
      | none => simp [CSet.empty]
      | some f =>
        simp only [Ops.evalProp, Bool.and_eq_true]
        constructor
        · rintro ⟨h1, h2⟩; exact ⟨h2, f, rfl, h1⟩
        · rintro ⟨h2, f', hf', h1⟩
          cases hf'
          exact ⟨h1, h2⟩
    | wild w =>
      simp only [Eval.evalPure, sat]
      cases hw : K.wild w with
      | none => simp [CSet.empty]
      | some a =>
        simp only [CSet.inter, Bool.and_eq_true]
        constructor
        · rintro ⟨h1, h2⟩; exact ⟨h2, a, rfl, h1⟩
        · rintro ⟨h2, a', ha', h1⟩
          cases ha'
          exact ⟨h1, h2⟩
  | un o c ih =>
    intro d U hw hd hU
    have hc := ih d U hw hd hU
    simp only [Eval.evalPure]
    apply Sem.tab hE
    cases o with
    | not => exact (sem_neg hc).iff (fun p _ _ => by simp only [sat])
    | ex => exact (sem_ex hE hG hU hc).iff (fun p _ _ => by simp only [sat])
    | ax => exact (sem_ax hE hG hU hc).iff (fun p _ _ => by simp only [sat])
    | ef => exact (sem_ef hE hG hU hc).iff (fun p _ _ => by simp only [sat])
    | af => exact (sem_af hE hG hU hc).iff (fun p _ _ => by simp only [sat])
    | eg => exact (sem_eg' hE hG hU hc).iff (fun p _ _ => by simp only [sat])
    | ag => exact (sem_ag hE hG hU hc).iff (fun p _ _ => by simp only [sat])
  | bin o l r ihl ihr =>
    intro d U hw hd hU
    have hl := ihl d U hw.1 hd.1 hU
    have hr := ihr d U hw.2 hd.2 hU
    simp only [Eval.evalPure]
    apply Sem.tab hE
    cases o with
    | and => exact (sem_and hl hr).iff (fun p _ _ => by simp only [sat])
    | or => exact (sem_or hl hr).iff (fun p _ _ => by simp only [sat])
    | xor => exact (sem_xor hl hr).iff (fun p _ _ => by simp only [sat])
    | imp => exact (sem_imp hl hr).iff (fun p _ _ => by simp only [sat])
    | iff => exact (sem_equiv hl hr).iff (fun p _ _ => by simp only [sat])
    | eu => exact (sem_eu' hE hG hU hl hr).iff (fun p _ _ => by simp only [sat])
    | au => exact (sem_au' hE hG hU hl hr).iff (fun p _ _ => by simp only [sat])
    | ew => exact (sem_ew hE hG hU hl hr).iff (fun p _ _ => by simp only [sat])
    | aw => exact (sem_aw hE hG hU hl hr).iff (fun p _ _ => by simp only [sat])
  | hyb op v dom c ih =>
    intro d U hw hd hU
    by_cases hj : op = .jump
    · subst hj
      simp only [WellNamed, if_true] at hw
      have hdc : DomsIn K c := by cases dom <;> simp only [DomsIn] at hd <;> first | exact hd | exact hd.2
      have hc := ih d U hw hdc hU
      simp only [Eval.evalPure, if_true]
      apply Sem.tab hE
      exact (sem_jump hE hG hU hc (varId v)).iff (fun p _ _ => by simp only [sat])
    · simp only [WellNamed, hj, if_false] at hw
      obtain ⟨hvd, hdk, hwc⟩ := hw
      simp only [Eval.evalPure, hj, if_false]
      cases dom with
      | none =>
        simp only [DomsIn] at hd
        have hc := ih (d + 1) U hwc hd hU.weaken
        have hU' : ∀ q ∈ E.pts, (U q = true ↔ (U q = true ∧ True)) := fun q _ => by simp
        apply Sem.tab hE
        rw [hvd]
        cases op with
        | jump => exact absurd rfl hj
        | bind =>
          exact (sem_bind_gen hE hG hdk hU hU' hc).iff
            (fun p _ _ => by simp only [sat, inDom, hvd, true_and])
        | ex =>
          exact (sem_exists_gen hE hG hU hU' hc).iff
            (fun p _ _ => by simp only [sat, inDom, hvd, true_and])
        | all =>
          exact (sem_forall_gen hE hG hU hU' hc).iff
            (fun p _ _ => by simp only [sat, inDom, hvd, true_implies])
      | some l =>
        simp only [DomsIn] at hd
        obtain ⟨⟨ds, hl⟩, hdc⟩ := hd
        simp only [hl]
        obtain ⟨hmem, hU'ok⟩ := restricted_unit hE hG K hK hl hU
        have hc := ih (d + 1) _ hwc hdc hU'ok
        apply Sem.tab hE
        rw [hvd]
        have hin : ∀ q : Point, inDom K (some l) q ↔ ds q = true := by
          intro q
          simp only [inDom, hl]
          constructor
          · rintro ⟨a, ha, h⟩; cases ha; exact h
          · intro h; exact ⟨ds, rfl, h⟩
        cases op with
        | jump => exact absurd rfl hj
        | bind =>
          refine (sem_bind_gen hE hG hdk hU hmem hc).iff (fun p hp _ => ?_)
          simp only [sat, hvd, hin]
          have := dom_at_setV hE hG K hK hl hp hdk (s_lt' hE hG hp)
          simp only [setS_self] at this
          rw [this]
        | ex =>
          refine (sem_exists_gen hE hG hU hmem hc).iff (fun p hp _ => ?_)
          simp only [sat, hvd, hin]
          constructor
          · rintro ⟨t, ht, h1, h2⟩
            rw [dom_at_setV hE hG K hK hl hp hdk ht] at h1
            exact ⟨t, ht, h1, h2⟩
          · rintro ⟨t, ht, h1, h2⟩
            rw [← dom_at_setV hE hG K hK hl hp hdk ht] at h1
            exact ⟨t, ht, h1, h2⟩
        | all =>
          refine (sem_forall_gen hE hG hU hmem hc).iff (fun p hp _ => ?_)
          simp only [sat, hvd, hin]
          constructor
          · intro h t ht h1
            rw [← dom_at_setV hE hG K hK hl hp hdk ht] at h1
            exact h t ht h1
          · intro h t ht h1
            rw [dom_at_setV hE hG K hK hl hp hdk ht] at h1
            exact h t ht h1

end main
end Hctl
