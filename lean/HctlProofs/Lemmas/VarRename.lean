/-
  Renaming of state variables in trees and its semantics: the canonical form has the shape of the tree; a tree
  with a single variable name means the same, read at another variable slot, after renaming that name.
-/
import HctlProofs.Props.C09
import HctlProofs.Lemmas.SatCongr
namespace Hctl
open Kripke C09

/-- rename every variable position (binders, occurrences, jumps) -/
def Tree.mapVars (f : Name → Name) : Tree → Tree
  | .atom (.var x) => .atom (.var (f x))
  | .atom a => .atom a
  | .un o c => .un o (c.mapVars f)
  | .bin o l r => .bin o (l.mapVars f) (r.mapVars f)
  | .hyb o x d c => .hyb o (f x) d (c.mapVars f)

theorem mapVars_comp (f g : Name → Name) : ∀ t : Tree, (t.mapVars f).mapVars g = t.mapVars (g ∘ f) := by
  intro t
  induction t with
  | atom a => cases a <;> simp [Tree.mapVars]
  | un o c ih => simp [Tree.mapVars, ih]
  | bin o l r ihl ihr => simp [Tree.mapVars, ihl, ihr]
  | hyb o x d c ih => simp [Tree.mapVars, ih]

theorem mapVars_id_on (f : Name → Name) : ∀ t : Tree, (∀ x ∈ varNames t, f x = x) → t.mapVars f = t := by
  intro t
  induction t with
  | atom a =>
    intro h
    cases a <;> simp [Tree.mapVars]
    exact h _ (by simp [varNames])
  | un o c ih => intro h; simp [Tree.mapVars, ih h]
  | bin o l r ihl ihr =>
    intro h
    simp only [varNames, List.mem_append] at h
    simp [Tree.mapVars, ihl (fun x hx => h x (Or.inl hx)), ihr (fun x hx => h x (Or.inr hx))]
  | hyb o x d c ih =>
    intro h
    simp only [varNames, List.mem_cons] at h
    simp [Tree.mapVars, ih (fun y hy => h y (Or.inr hy)), h x (Or.inl rfl)]

/-- canonisation only changes variable names: the shape of the canonical form is the shape of the tree -/
theorem canonTreeAux_shape (z : Name) : ∀ (t : Tree) (st : CanonT),
    (canonTreeAux t st).1.mapVars (fun _ => z) = t.mapVars (fun _ => z) := by
  intro t
  induction t with
  | atom a => intro st; cases a <;> simp [canonTreeAux, Tree.mapVars]
  | un o c ih => intro st; simp [canonTreeAux, Tree.mapVars, ih]
  | bin o l r ihl ihr => intro st; simp [canonTreeAux, Tree.mapVars, ihl, ihr]
  | hyb o x d c ih =>
    intro st
    by_cases hj : o = .jump
    · simp [canonTreeAux, hj, Tree.mapVars, ih]
    · simp [canonTreeAux, hj, Tree.mapVars, ih]

theorem varNames_mapVars (f : Name → Name) : ∀ t : Tree, varNames (t.mapVars f) = (varNames t).map f := by
  intro t
  induction t with
  | atom a => cases a <;> simp [Tree.mapVars, varNames]
  | un o c ih => simp [Tree.mapVars, varNames, ih]
  | bin o l r ihl ihr => simp [Tree.mapVars, varNames, ihl, ihr]
  | hyb o x d c ih => simp [Tree.mapVars, varNames, ih]

/-- trees with equal canonical forms have the same number of variable positions -/
theorem varNames_length_of_canon_eq (t1 t2 : Tree) (st1 st2 : CanonT)
    (h : (canonTreeAux t1 st1).1 = (canonTreeAux t2 st2).1) : (varNames t1).length = (varNames t2).length := by
  have a := canonTreeAux_shape [] t1 st1
  have b := canonTreeAux_shape [] t2 st2
  rw [h, b] at a
  have := congrArg (fun t => (varNames t).length) a
  simpa [varNames_mapVars] using this.symm

/-- two single-name trees with the same canonical form differ only by that name -/
theorem eq_mapVars_of_canon_eq (t1 t2 : Tree) (st1 st2 : CanonT) (v2 : Name)
    (h : (canonTreeAux t1 st1).1 = (canonTreeAux t2 st2).1) (h2 : ∀ x ∈ varNames t2, x = v2) :
    t2 = t1.mapVars (fun _ => v2) := by
  have a := canonTreeAux_shape [] t1 st1
  have b := canonTreeAux_shape [] t2 st2
  rw [h, b] at a
  -- a : t2.mapVars (const []) = t1.mapVars (const [])
  have c := congrArg (Tree.mapVars (fun _ => v2)) a
  rw [mapVars_comp, mapVars_comp] at c
  have d : t2.mapVars ((fun _ => v2) ∘ fun (_ : Name) => ([] : Name)) = t2 :=
    mapVars_id_on _ t2 (fun x hx => (h2 x hx).symm)
  rw [d] at c
  exact c

/-- SEMANTICS OF RENAMING: a tree all of whose variable positions carry the name `x1` (slot `i`) means, read with
slot `i` holding `a`, what its renaming to `x2` (slot `j`) means when slot `j` holds `a`. -/
theorem sat_renameVar (G : Graph) (K : SemCtx) (hK : CtxSC K) (x1 x2 : Name) :
    ∀ t s c (v v' : List Nat), (∀ x ∈ varNames t, x = x1) → varId x1 < v.length → varId x2 < v'.length →
      (Point.mk s c v).getV (varId x1) = (Point.mk s c v').getV (varId x2) →
      (sat G K t ⟨s, c, v⟩ ↔ sat G K (t.mapVars (fun _ => x2)) ⟨s, c, v'⟩) := by
  intro t
  induction t with
  | atom a =>
    intro s c v v' hx hl hl' hv
    cases a with
    | tt => simp [sat, Tree.mapVars]
    | ff => simp [sat, Tree.mapVars]
    | prop n => simp [sat, Tree.mapVars]
    | var x =>
      have : x = x1 := hx x (by simp [varNames])
      subst this
      simp only [sat, Tree.mapVars]
      rw [hv]
    | wild w =>
      simp only [sat, Tree.mapVars]
      constructor
      · rintro ⟨a, ha, h⟩; exact ⟨a, ha, by rw [← hK.wild w a ha ⟨s, c, v⟩ ⟨s, c, v'⟩ rfl rfl]; exact h⟩
      · rintro ⟨a, ha, h⟩; exact ⟨a, ha, by rw [hK.wild w a ha ⟨s, c, v⟩ ⟨s, c, v'⟩ rfl rfl]; exact h⟩
  | un o c ih =>
    intro s cc v v' hx hl hl' hv
    have ih' : ∀ t, sat G K c ⟨t, cc, v⟩ ↔ sat G K (c.mapVars (fun _ => x2)) ⟨t, cc, v'⟩ :=
      fun t => ih t cc v v' hx hl hl' hv
    cases o <;> simp only [sat, Tree.mapVars, Point.setS, ih']
  | bin o l r ihl ihr =>
    intro s cc v v' hx hl hl' hv
    simp only [varNames, List.mem_append] at hx
    have il : ∀ t, sat G K l ⟨t, cc, v⟩ ↔ sat G K (l.mapVars (fun _ => x2)) ⟨t, cc, v'⟩ :=
      fun t => ihl t cc v v' (fun x h => hx x (Or.inl h)) hl hl' hv
    have ir : ∀ t, sat G K r ⟨t, cc, v⟩ ↔ sat G K (r.mapVars (fun _ => x2)) ⟨t, cc, v'⟩ :=
      fun t => ihr t cc v v' (fun x h => hx x (Or.inr h)) hl hl' hv
    cases o <;> simp only [sat, Tree.mapVars, Point.setS, il, ir]
  | hyb o x dom c ih =>
    intro s cc v v' hx hl hl' hv
    simp only [varNames, List.mem_cons] at hx
    have hxx : x = x1 := hx x (Or.inl rfl)
    subst hxx
    have hxc : ∀ y ∈ varNames c, y = x := fun y hy => hx y (Or.inr hy)
    have step : ∀ t, sat G K c ((Point.mk s cc v).setV (varId x) t) ↔
        sat G K (c.mapVars (fun _ => x2)) ((Point.mk s cc v').setV (varId x2) t) := by
      intro t
      simp only [Point.setV]
      apply ih s cc _ _ hxc (by simpa using hl) (by simpa using hl')
      have h1 := getV_setV v s cc (varId x) (varId x) t hl
      have h2 := getV_setV v' s cc (varId x2) (varId x2) t hl'
      simp only [Point.setV, if_true] at h1 h2
      rw [h1, h2]
    cases o with
    | jump =>
      simp only [sat, Tree.mapVars, Point.setS]
      rw [hv]
      exact ih _ cc v v' hxc hl hl' hv
    | bind =>
      simp only [sat, Tree.mapVars]
      rw [step s, inDom_congr hK dom (q := ⟨s, cc, v⟩) (q' := ⟨s, cc, v'⟩) rfl rfl]
    | ex =>
      simp only [sat, Tree.mapVars]
      constructor
      · rintro ⟨t, ht, h1, h2⟩
        exact ⟨t, ht, (inDom_congr hK dom (q := ⟨t, cc, v⟩) (q' := ⟨t, cc, v'⟩) rfl rfl).mp h1, (step t).mp h2⟩
      · rintro ⟨t, ht, h1, h2⟩
        exact ⟨t, ht, (inDom_congr hK dom (q := ⟨t, cc, v⟩) (q' := ⟨t, cc, v'⟩) rfl rfl).mpr h1, (step t).mpr h2⟩
    | all =>
      simp only [sat, Tree.mapVars]
      constructor
      · intro hh t ht h1
        exact (step t).mp (hh t ht ((inDom_congr hK dom (q := ⟨t, cc, v⟩) (q' := ⟨t, cc, v'⟩) rfl rfl).mpr h1))
      · intro hh t ht h1
        exact (step t).mpr (hh t ht ((inDom_congr hK dom (q := ⟨t, cc, v⟩) (q' := ⟨t, cc, v'⟩) rfl rfl).mp h1))

end Hctl
