/-
  The environment the driver evaluates in satisfies the premises of the theorems whenever the run-time
  check `Graph.stepsOK` answers `true` (the driver prints `premises=ok`, the harness requires it).
-/
import HctlModel.GraphCheck
import HctlProofs.Props.C12
namespace Hctl
open Std

theorem foldl_insert_contains (f : CSet) (p : Point) :
    ∀ (pts : List Point) (acc : HashSet Point),
      (pts.foldl (fun acc q => if f q then acc.insert q else acc) acc).contains p
        = (acc.contains p || (decide (p ∈ pts) && f p)) := by
  intro pts
  induction pts with
  | nil => intro acc; simp
  | cons q qs ih =>
    intro acc
    rw [List.foldl_cons, ih]
    by_cases hq : f q = true
    · rw [if_pos hq, HashSet.contains_insert]
      by_cases hqp : q = p
      · subst hqp; simp [hq]
      · have : (q == p) = false := by simpa using hqp
        have h2 : ¬ p = q := fun h => hqp h.symm
        simp [this, h2]
    · rw [if_neg hq]
      by_cases hqp : p = q
      · subst hqp
        have : f p = false := by simpa using hq
        simp [this]
      · simp [hqp]

theorem hashTab_ok (pts : List Point) (f : CSet) (p : Point) (hp : p ∈ pts) : hashTab pts f p = f p := by
  show (pts.foldl (fun acc q => if f q then acc.insert q else acc) (∅ : HashSet Point)).contains p = f p
  rw [foldl_insert_contains]
  simp [hp]

theorem envOK_driver (G : Graph) : EnvOK (driverEnv G) :=
  ⟨fun f p hp => hashTab_ok _ f p hp, rfl⟩

theorem stepsOK_spec (G : Graph) (h : G.stepsOK = true) :
    ∀ c j s t, c < G.nC → j < G.nV → s < G.nS → G.step c j s = some t → t < G.nS ∧ t ≠ s := by
  intro c j s t hc hj hs hst
  simp only [Graph.stepsOK, List.all_eq_true, List.mem_range] at h
  have := h c hc j hj s hs
  rw [hst] at this
  simpa using this

theorem graphWF_driver (G : Graph) (h : G.stepsOK = true) : GraphWF (driverEnv G).G := by
  refine ⟨fun c j s t hst _ => ?_⟩
  simp only [driverEnv, Graph.restrict] at hst ⊢
  split at hst
  · rename_i hr; exact (stepsOK_spec G h c j s t hr.1 hr.2.1 hr.2.2 hst).1
  · cases hst

theorem graphAsync_driver (G : Graph) (h : G.stepsOK = true) : C12.GraphAsync (driverEnv G).G := by
  refine ⟨fun c j s t hst => ?_⟩
  simp only [driverEnv, Graph.restrict] at hst
  split at hst
  · rename_i hr; exact (stepsOK_spec G h c j s t hr.1 hr.2.1 hr.2.2 hst).2
  · cases hst

/-- what `premises=ok` in the driver's answer to a `graph` request means -/
theorem driver_premises (G : Graph) (h : G.stepsOK = true) :
    EnvOK (driverEnv G) ∧ GraphWF (driverEnv G).G ∧ C12.GraphAsync (driverEnv G).G :=
  ⟨envOK_driver G, graphWF_driver G h, graphAsync_driver G h⟩

end Hctl
