/-
  Path semantics versus (co)inductive characterisations of the CTL operators, for an arbitrary
  total transition relation.  No finiteness is needed here; classical choice builds the paths.
-/
namespace Hctl.Kripke

variable {α : Type}

/-- infinite paths of a relation -/
structure Path (R : α → α → Prop) (s : α) where
  π : Nat → α
  h0 : π 0 = s
  hstep : ∀ i, R (π i) (π (i + 1))

def Path.tail {R : α → α → Prop} {s : α} (p : Path R s) : Path R (p.π 1) :=
  ⟨fun i => p.π (i + 1), rfl, fun i => p.hstep (i + 1)⟩

def Path.cons {R : α → α → Prop} {s t : α} (h : R s t) (p : Path R t) : Path R s :=
  ⟨fun i => match i with | 0 => s | i + 1 => p.π i, rfl, fun i => by
    cases i with
    | zero => simpa [p.h0] using h
    | succ i => exact p.hstep i⟩

def Total (R : α → α → Prop) : Prop := ∀ s, ∃ t, R s t

/-- a path that follows a choice function -/
def iter (f : α → α) (s : α) : Nat → α
  | 0 => s
  | n + 1 => f (iter f s n)

def pathOf {R : α → α → Prop} (f : α → α) (hf : ∀ s, R s (f s)) (s : α) : Path R s :=
  ⟨iter f s, rfl, fun i => hf _⟩

theorem exists_path {R : α → α → Prop} (hT : Total R) (s : α) : Nonempty (Path R s) := by
  classical
  exact ⟨pathOf (fun x => Classical.choose (hT x)) (fun x => Classical.choose_spec (hT x)) s⟩

/-! ### E-until -/

/-- least fixed point: finitely many steps through φ to ψ -/
inductive EUi (R : α → α → Prop) (φ ψ : α → Prop) : α → Prop
  | here {s} : ψ s → EUi R φ ψ s
  | step {s t} : φ s → R s t → EUi R φ ψ t → EUi R φ ψ s

def EUp (R : α → α → Prop) (φ ψ : α → Prop) (s : α) : Prop :=
  ∃ p : Path R s, ∃ i, ψ (p.π i) ∧ ∀ j, j < i → φ (p.π j)

theorem EUp_iff_EUi {R : α → α → Prop} (hT : Total R) (φ ψ : α → Prop) (s : α) :
    EUp R φ ψ s ↔ EUi R φ ψ s := by
  constructor
  · rintro ⟨p, i, hψ, hφ⟩
    induction i generalizing s with
    | zero => rw [p.h0] at hψ; exact EUi.here hψ
    | succ i ih =>
      have h0 : φ s := by have := hφ 0 (Nat.succ_pos i); rwa [p.h0] at this
      have hR : R s (p.π 1) := by have := p.hstep 0; rwa [p.h0] at this
      exact EUi.step h0 hR (ih (p.π 1) p.tail hψ (fun j hj => hφ (j + 1) (Nat.succ_lt_succ hj)))
  · intro h
    induction h with
    | @here s hψ =>
      obtain ⟨p⟩ := exists_path hT s
      exact ⟨p, 0, by rw [p.h0]; exact hψ, fun j hj => absurd hj (Nat.not_lt_zero j)⟩
    | @step s t hφ hR _ ih =>
      obtain ⟨p, i, hψ, hφ'⟩ := ih
      refine ⟨Path.cons hR p, i + 1, hψ, ?_⟩
      intro j hj
      cases j with
      | zero => exact hφ
      | succ j => exact hφ' j (Nat.lt_of_succ_lt_succ hj)

/-! ### E-globally -/

def EGp (R : α → α → Prop) (φ : α → Prop) (s : α) : Prop := ∃ p : Path R s, ∀ i, φ (p.π i)

/-- greatest fixed point: a set containing `s`, inside φ, in which every element has a successor -/
def EGc (R : α → α → Prop) (φ : α → Prop) (s : α) : Prop :=
  ∃ X : α → Prop, X s ∧ ∀ x, X x → φ x ∧ ∃ y, R x y ∧ X y

theorem EGp_iff_EGc {R : α → α → Prop} (φ : α → Prop) (s : α) : EGp R φ s ↔ EGc R φ s := by
  constructor
  · rintro ⟨p, h⟩
    refine ⟨fun x => ∃ i, p.π i = x, ⟨0, p.h0⟩, ?_⟩
    rintro x ⟨i, rfl⟩
    exact ⟨h i, p.π (i + 1), p.hstep i, ⟨i + 1, rfl⟩⟩
  · rintro ⟨X, hs, hX⟩
    classical
    -- choice function staying inside X
    let f : α → α := fun x => if hx : X x then Classical.choose (hX x hx).2 else x
    have hf : ∀ x, X x → R x (f x) ∧ X (f x) := by
      intro x hx
      simp only [f, dif_pos hx]
      exact Classical.choose_spec (hX x hx).2
    have hin : ∀ i, X (iter f s i) := by
      intro i
      induction i with
      | zero => exact hs
      | succ i ih => exact (hf _ ih).2
    refine ⟨⟨iter f s, rfl, fun i => (hf _ (hin i)).1⟩, fun i => (hX _ (hin i)).1⟩

/-! ### A-until -/

def AUp (R : α → α → Prop) (φ ψ : α → Prop) (s : α) : Prop :=
  ∀ p : Path R s, ∃ i, ψ (p.π i) ∧ ∀ j, j < i → φ (p.π j)

inductive AUi (R : α → α → Prop) (φ ψ : α → Prop) : α → Prop
  | here {s} : ψ s → AUi R φ ψ s
  | step {s} : φ s → (∀ t, R s t → AUi R φ ψ t) → AUi R φ ψ s

theorem AUi_imp_AUp {R : α → α → Prop} (φ ψ : α → Prop) (s : α) (h : AUi R φ ψ s) : AUp R φ ψ s := by
  induction h with
  | @here s hψ => intro p; exact ⟨0, by rw [p.h0]; exact hψ, fun j hj => absurd hj (Nat.not_lt_zero j)⟩
  | @step s hφ _ ih =>
    intro p
    have hR : R s (p.π 1) := by have := p.hstep 0; rwa [p.h0] at this
    obtain ⟨i, hψ, hφ'⟩ := ih (p.π 1) hR p.tail
    refine ⟨i + 1, hψ, ?_⟩
    intro j hj
    cases j with
    | zero => rw [p.h0]; exact hφ
    | succ j => exact hφ' j (Nat.lt_of_succ_lt_succ hj)

theorem AUp_imp_AUi {R : α → α → Prop} (hT : Total R) (φ ψ : α → Prop) (s : α) (h : AUp R φ ψ s) :
    AUi R φ ψ s := by
  classical
  apply Classical.byContradiction
  intro hn
  -- from a state outside AUi with φ we can step to a state outside AUi
  have key : ∀ x, ¬ AUi R φ ψ x → ¬ ψ x ∧ (φ x → ∃ y, R x y ∧ ¬ AUi R φ ψ y) := by
    intro x hx
    refine ⟨fun hψ => hx (AUi.here hψ), fun hφ => ?_⟩
    apply Classical.byContradiction
    intro hne
    apply hx
    refine AUi.step hφ (fun t ht => ?_)
    apply Classical.byContradiction
    intro hnt
    exact hne ⟨t, ht, hnt⟩
  let f : α → α := fun x =>
    if hx : ¬ AUi R φ ψ x ∧ φ x then Classical.choose ((key x hx.1).2 hx.2) else Classical.choose (hT x)
  have hfR : ∀ x, R x (f x) := by
    intro x
    by_cases hx : ¬ AUi R φ ψ x ∧ φ x
    · simp only [f, dif_pos hx]; exact (Classical.choose_spec ((key x hx.1).2 hx.2)).1
    · simp only [f, dif_neg hx]; exact Classical.choose_spec (hT x)
  have hfN : ∀ x, ¬ AUi R φ ψ x → φ x → ¬ AUi R φ ψ (f x) := by
    intro x hx hφ
    have hc : ¬ AUi R φ ψ x ∧ φ x := ⟨hx, hφ⟩
    simp only [f, dif_pos hc]; exact (Classical.choose_spec ((key x hx).2 hφ)).2
  obtain ⟨i, hψ, hφ⟩ := h (pathOf f hfR s)
  have hout : ∀ j, j ≤ i → ¬ AUi R φ ψ (iter f s j) := by
    intro j
    induction j with
    | zero => intro _; exact hn
    | succ j ih =>
      intro hj
      exact hfN _ (ih (Nat.le_of_succ_le hj)) (hφ j hj)
  exact (key _ (hout i (Nat.le_refl i))).1 hψ

theorem AUp_iff_AUi {R : α → α → Prop} (hT : Total R) (φ ψ : α → Prop) (s : α) :
    AUp R φ ψ s ↔ AUi R φ ψ s :=
  ⟨AUp_imp_AUi hT φ ψ s, AUi_imp_AUp φ ψ s⟩

end Hctl.Kripke
