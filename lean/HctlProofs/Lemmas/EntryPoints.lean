/-
  END-TO-END statements about the string entry points of the model (`Api.formulaeDirty` = tokenizer + parser +
  preprocessing + support check + `mark_duplicates` + cached evaluation): for EVERY list of input strings the outcome
  is a user error (exactly the parse/validation error) or the exact satisfaction sets — never a panic.
-/
import HctlProofs.Props.C04
import HctlProofs.Props.C14
import HctlProofs.Props.C05
namespace Hctl
open Kripke

section
variable {C : CharClass} (hC : Lex.CharsOK C) (E : Env)
include hC

theorem charOK_of_charsOK : Lex.CharOK C := by
  refine ⟨?_⟩
  have := hC.special_not_name '%' (by simp [Lex.specials])
  simp only [Lex.isName, Bool.or_eq_false_iff] at this
  exact this.1

/-- what the plain parsing pipeline returns is a legitimate top-level query -/
theorem parseOne_goodQ (cs : List Char) (t' : Tree) (h : Api.parseOne E C false cs = .ok t') :
    GoodQ C E noCtx E.G.unit0 t' E.G.unit0 [] := by
  unfold Api.parseOne at h
  cases hl : Lex.tokenize C false cs with
  | error e => simp [hl] at h
  | ok toks =>
    simp only [hl] at h
    cases hp : parseToks toks with
    | error e => simp [hp] at h
    | ok t =>
      simp only [hp] at h
      cases hr : rename (fun n => (E.G.label n).isSome) t with
      | error e => cases e <;> simp [hr] at h
      | ok t2 =>
        simp only [hr] at h
        split at h
        · cases h
        · rename_i hk
          simp only [Except.ok.injEq] at h
          subst h
          exact C14.preprocessed_goodQ C hC E t t2 hr (C05.plain_rejects_ext C (charOK_of_charsOK hC) cs toks t hl hp)
            (by omega) (parsed_treeOK hC false cs toks t hl hp)

theorem parseAll_goodQ : ∀ (fs : List (List Char)) (trees : List Tree) (ps ds : List (Name × CSet)),
    Api.parseAll E C false [] fs = .ok (trees, ps, ds) → ∀ t ∈ trees, GoodQ C E noCtx E.G.unit0 t E.G.unit0 [] := by
  intro fs
  induction fs with
  | nil =>
    intro trees ps ds h t ht
    simp only [Api.parseAll, Except.ok.injEq, Prod.mk.injEq] at h
    rw [← h.1] at ht
    simp at ht
  | cons f fs ih =>
    intro trees ps ds h t ht
    simp only [Api.parseAll] at h
    cases hp : Api.parseOne E C false f with
    | error e => simp [hp] at h
    | ok t0 =>
      simp only [hp, Bool.false_eq_true, if_false] at h
      cases hrest : Api.parseAll E C false [] fs with
      | error e => simp [hrest] at h
      | ok r =>
        obtain ⟨ts, p', d'⟩ := r
        simp only [hrest, Except.ok.injEq, Prod.mk.injEq] at h
        rw [← h.1] at ht
        simp only [List.mem_cons] at ht
        rcases ht with rfl | ht
        · exact parseOne_goodQ hC E f t hp
        · exact ih ts p' d' hrest t ht

variable {E}
variable (hE : EnvOK E) (hG : GraphWF E.G) (hA : C12.GraphAsync E.G)
include hE hG hA

/-- END TO END, `model_check_multiple_formulae_dirty` on arbitrary input strings: the outcome is the parse/validation
error, or the exact satisfaction sets of the preprocessed formulae; the evaluator never panics. -/
theorem formulaeDirty_correct (fs : List (List Char)) :
    (∃ e, Api.parseAll E C false [] fs = .error e ∧ Api.formulaeDirty E C E.G.unit0 fs = .userError e) ∨
    (∃ trees ps ds rs, Api.parseAll E C false [] fs = .ok (trees, ps, ds) ∧
      Api.formulaeDirty E C E.G.unit0 fs = .ok rs ∧ rs.length = trees.length ∧
      ∀ i (hi : i < trees.length) (hi' : i < rs.length), ∀ p ∈ E.pts,
        (rs[i] p = true ↔ (E.G.unit0 p = true ∧ sat E.G noCtx trees[i] p))) := by
  cases hp : Api.parseAll E C false [] fs with
  | error e => left; exact ⟨e, rfl, by simp [Api.formulaeDirty, hp]⟩
  | ok r =>
    obtain ⟨trees, ps, ds⟩ := r
    right
    have hq := parseAll_goodQ hC E fs trees ps ds hp
    obtain ⟨rs, hev, hlen, hall⟩ := C04.treesDirty_sound hC hE hG hA E.G.unit0 trees
      (fun p hp i t ht => (unitOK_unit0 E).indepFrom p hp i t (Nat.zero_le _) ht) hq
    exact ⟨trees, ps, ds, rs, rfl, by simp [Api.formulaeDirty, hp, hev], hlen, fun i hi hi' p hpp => hall i hi hi' p hpp⟩

end
def wildLabels : Tree → List Name
  | .atom (.wild w) => [w]
  | .atom _ => []
  | .un _ c => wildLabels c
  | .bin _ l r => wildLabels l ++ wildLabels r
  | .hyb _ _ _ c => wildLabels c

def domLabels : Tree → List Name
  | .atom _ => []
  | .un _ c => domLabels c
  | .bin _ l r => domLabels l ++ domLabels r
  | .hyb _ _ none c => domLabels c
  | .hyb _ _ (some d) c => d :: domLabels c

theorem wildsIn_iff (K : SemCtx) : ∀ t, WildsIn K t ↔ ∀ w ∈ wildLabels t, ∃ a, K.wild w = some a := by
  intro t
  induction t with
  | atom a => cases a <;> simp [WildsIn, wildLabels]
  | un o c ih => simpa [WildsIn, wildLabels] using ih
  | bin o l r ihl ihr =>
    simp only [WildsIn, wildLabels, List.mem_append, ihl, ihr]
    constructor
    · rintro ⟨h1, h2⟩ w (hw | hw); exact h1 w hw; exact h2 w hw
    · intro h; exact ⟨fun w hw => h w (Or.inl hw), fun w hw => h w (Or.inr hw)⟩
  | hyb o x d c ih => simpa [WildsIn, wildLabels] using ih

theorem domsIn_iff (K : SemCtx) : ∀ t, DomsIn K t ↔ ∀ d ∈ domLabels t, ∃ a, K.dom d = some a := by
  intro t
  induction t with
  | atom a => simp [DomsIn, domLabels]
  | un o c ih => simpa [DomsIn, domLabels] using ih
  | bin o l r ihl ihr =>
    simp only [DomsIn, domLabels, List.mem_append, ihl, ihr]
    constructor
    · rintro ⟨h1, h2⟩ w (hw | hw); exact h1 w hw; exact h2 w hw
    · intro h; exact ⟨fun w hw => h w (Or.inl hw), fun w hw => h w (Or.inr hw)⟩
  | hyb o x d c ih =>
    cases d with
    | none => simpa [DomsIn, domLabels] using ih
    | some l => simp [DomsIn, domLabels, ih]

theorem mem_insertUniq (n x : Name) (l : List Name) : x ∈ insertUniq n l ↔ x = n ∨ x ∈ l := by
  unfold insertUniq
  by_cases h : l.contains n = true
  · simp only [h, if_true]
    constructor
    · exact Or.inr
    · rintro (rfl | h'); exact (by simpa using h); exact h'
  · simp only [h, if_false, Bool.false_eq_true, List.mem_append, List.mem_singleton]
    constructor
    · rintro (h' | h'); exact Or.inr h'; exact Or.inl h'
    · rintro (h' | h'); exact Or.inr h'; exact Or.inl h'

/-- `collect_unique_wild_cards` collects exactly the labels that occur (plus what was there) -/
theorem mem_wildCards : ∀ (t : Tree) (acc : List Name × List Name),
    (∀ x, x ∈ (t.wildCards acc).1 ↔ x ∈ acc.1 ∨ x ∈ wildLabels t) ∧
    (∀ x, x ∈ (t.wildCards acc).2 ↔ x ∈ acc.2 ∨ x ∈ domLabels t) := by
  intro t
  induction t with
  | atom a =>
    intro acc
    obtain ⟨ps, ds⟩ := acc
    cases a with
    | wild w =>
      simp only [Tree.wildCards, wildLabels, domLabels, List.mem_singleton, List.not_mem_nil, or_false]
      exact ⟨fun x => by rw [mem_insertUniq]; exact Or.comm, fun _ => trivial⟩
    | _ => simp [Tree.wildCards, wildLabels, domLabels]
  | un o c ih => intro acc; simpa [Tree.wildCards, wildLabels, domLabels] using ih acc
  | bin o l r ihl ihr =>
    intro acc
    have a := ihl acc
    have b := ihr (l.wildCards acc)
    simp only [Tree.wildCards, wildLabels, domLabels, List.mem_append]
    exact ⟨fun x => by rw [b.1, a.1, or_assoc], fun x => by rw [b.2, a.2, or_assoc]⟩
  | hyb o v d c ih =>
    intro acc
    obtain ⟨ps, ds⟩ := acc
    cases d with
    | none => simpa [Tree.wildCards, wildLabels, domLabels] using ih (ps, ds)
    | some l =>
      have := ih (ps, insertUniq l ds)
      simp only [Tree.wildCards, wildLabels, domLabels, List.mem_cons]
      refine ⟨this.1, fun x => ?_⟩
      rw [this.2, mem_insertUniq]
      constructor
      · rintro ((h | h) | h); exact Or.inr (Or.inl h); exact Or.inl h; exact Or.inr (Or.inr h)
      · rintro (h | h | h); exact Or.inl (Or.inr h); exact Or.inl (Or.inl h); exact Or.inr h

theorem lookupAll_spec (ctxSets : List (Name × CSet)) : ∀ (ns : List Name) (l : List (Name × CSet)),
    Api.lookupAll ctxSets ns = some l → ∀ n ∈ ns, ∃ s, (n, s) ∈ l := by
  intro ns
  induction ns with
  | nil => intro l _ n hn; simp at hn
  | cons m ns ih =>
    intro l h n hn
    simp only [Api.lookupAll] at h
    cases h1 : ctxSets.lookup m with
    | none => simp [h1] at h
    | some s =>
      cases h2 : Api.lookupAll ctxSets ns with
      | none => simp [h1, h2] at h
      | some rest =>
        simp only [h1, h2, Option.some.injEq] at h
        subst h
        simp only [List.mem_cons] at hn
        rcases hn with rfl | hn
        · exact ⟨s, by simp⟩
        · obtain ⟨s', hs'⟩ := ih rest h2 n hn
          exact ⟨s', by simp [hs']⟩

theorem lookup_isSome_of_key {α : Type} (n : Name) : ∀ (acc : List (Name × α)) (x : Name × α), x ∈ acc → x.1 = n →
    ∃ a, acc.lookup n = some a := by
  intro acc
  induction acc with
  | nil => intro x hx; simp at hx
  | cons y acc ih =>
    intro x hx hxn
    simp only [List.lookup]
    by_cases hy : n = y.1
    · exact ⟨y.2, by simp [hy]⟩
    · have hb : (n == y.1) = false := beq_eq_false_iff_ne.mpr hy
      simp only [hb]
      simp only [List.mem_cons] at hx
      rcases hx with rfl | hx
      · exact absurd hxn.symm hy
      · exact ih x hx hxn

theorem dedupNames_lookup (l : List (Name × CSet)) (n : Name) (s : CSet) (h : (n, s) ∈ l) :
    ∃ a, (Api.dedupNames l).lookup n = some a := by
  unfold Api.dedupNames
  have key : ∀ (l acc : List (Name × CSet)), ((∃ a, acc.lookup n = some a) ∨ ∃ s, (n, s) ∈ l) →
      ∃ a, (l.foldl (fun acc e => if acc.any (fun x => x.1 == e.1) then acc else acc ++ [e]) acc).lookup n = some a := by
    intro l
    induction l with
    | nil => intro acc h; rcases h with h | ⟨s, h⟩; exact h; simp at h
    | cons e l ih =>
      intro acc h
      simp only [List.foldl_cons]
      apply ih
      by_cases hacc : ∃ a, acc.lookup n = some a
      · left
        obtain ⟨a, ha⟩ := hacc
        split
        · exact ⟨a, ha⟩
        · exact ⟨a, by rw [List.lookup_append, ha]; rfl⟩
      · rcases h with h | ⟨s, h⟩
        · exact absurd h hacc
        · simp only [List.mem_cons] at h
          rcases h with rfl | h
          · left
            have hn : acc.any (fun x => x.1 == n) = false := by
              apply Bool.eq_false_iff.mpr
              intro hany
              obtain ⟨x, hx, hxn⟩ := List.any_eq_true.mp hany
              exact hacc (lookup_isSome_of_key n acc x hx (by simpa using hxn))
            simp only [hn, Bool.false_eq_true, if_false]
            refine ⟨s, ?_⟩
            rw [List.lookup_append]
            cases hl : acc.lookup n with
            | some a => exact absurd ⟨a, hl⟩ hacc
            | none => simp [List.lookup]
          · exact Or.inr ⟨s, h⟩
  exact key l [] (Or.inr ⟨s, h⟩)

theorem lookupAll_mem (ctxSets : List (Name × CSet)) : ∀ (ns : List Name) (l : List (Name × CSet)),
    Api.lookupAll ctxSets ns = some l → ∀ e ∈ l, e.1 ∈ ns ∧ e ∈ ctxSets := by
  intro ns
  induction ns with
  | nil => intro l h e he; simp [Api.lookupAll] at h; subst h; simp at he
  | cons m ns ih =>
    intro l h e he
    simp only [Api.lookupAll] at h
    cases h1 : ctxSets.lookup m with
    | none => simp [h1] at h
    | some s =>
      cases h2 : Api.lookupAll ctxSets ns with
      | none => simp [h1, h2] at h
      | some rest =>
        simp only [h1, h2, Option.some.injEq] at h
        subst h
        simp only [List.mem_cons] at he
        rcases he with rfl | he
        · exact ⟨by simp, C04.lookup_mem_gen ctxSets h1⟩
        · have := ih rest h2 e he
          exact ⟨by simp [this.1], this.2⟩

theorem dedupNames_sub (l : List (Name × CSet)) : ∀ e ∈ Api.dedupNames l, e ∈ l := by
  unfold Api.dedupNames
  have key : ∀ (l acc : List (Name × CSet)) e,
      e ∈ l.foldl (fun acc e => if acc.any (fun x => x.1 == e.1) then acc else acc ++ [e]) acc → e ∈ acc ∨ e ∈ l := by
    intro l
    induction l with
    | nil => intro acc e h; exact Or.inl h
    | cons x l ih =>
      intro acc e h
      simp only [List.foldl_cons] at h
      rcases ih _ e h with h' | h'
      · split at h'
        · exact Or.inl h'
        · simp only [List.mem_append, List.mem_singleton] at h'
          rcases h' with h' | rfl
          · exact Or.inl h'
          · exact Or.inr (by simp)
      · exact Or.inr (by simp [h'])
  intro e he
  rcases key l [] e he with h | h
  · simp at h
  · exact h

theorem wildLabels_valid {C : CharClass} : ∀ (t : Tree), Lex.TreeOK C t → ∀ w ∈ wildLabels t, Lex.ValidId C w := by
  intro t
  induction t with
  | atom a => intro h w hw; cases a <;> simp_all [wildLabels, Lex.TreeOK]
  | un o c ih => intro h w hw; exact ih (by simpa [Lex.TreeOK] using h) w hw
  | bin o l r ihl ihr =>
    intro h w hw
    simp only [Lex.TreeOK] at h
    simp only [wildLabels, List.mem_append] at hw
    rcases hw with hw | hw
    · exact ihl h.1 w hw
    · exact ihr h.2 w hw
  | hyb o x d c ih => intro h w hw; simp only [Lex.TreeOK] at h; exact ih h.2.2 w hw

section
variable {C : CharClass} (hC : Lex.CharsOK C) (E : Env)
include hC

/-- what the extended parsing pipeline returns is a legitimate top-level query for every context that has a set for
each of its wild-card and domain labels -/
theorem parseOne_goodQ_ext (K : SemCtx) (cs : List Char) (t' : Tree) (h : Api.parseOne E C true cs = .ok t')
    (hd : DomsIn K t') (hw : WildsIn K t') : GoodQ C E K E.G.unit0 t' E.G.unit0 [] := by
  unfold Api.parseOne at h
  cases hl : Lex.tokenize C true cs with
  | error e => simp [hl] at h
  | ok toks =>
    simp only [hl] at h
    cases hp : parseToks toks with
    | error e => simp [hp] at h
    | ok t =>
      simp only [hp] at h
      cases hr : rename (fun n => (E.G.label n).isSome) t with
      | error e => cases e <;> simp [hr] at h
      | ok t2 =>
        simp only [hr] at h
        split at h
        · cases h
        · rename_i hk
          simp only [Except.ok.injEq] at h
          subst h
          refine ⟨C07.rename_wellScoped _ t t2 hr _ (by omega), C07.rename_depth_names _ t t2 hr, Nat.zero_le _,
            hd, fun i l hil => by simp at hil, hw, C07.renameRec_propsOK _ t [] [] t2 hr,
            unitOK_unit0 E, ?_, rename_treeOK hC _ t t2 (parsed_treeOK hC true cs toks t hl hp) hr⟩
          intro p _
          simp

omit hC in
/-- the trees of an accepted extended batch: each came from the parsing pipeline, and the collected context lists
contain a set for each of its labels (and nothing but sets of the supplied context) -/
theorem parseAll_ext_spec (ctxSets : List (Name × CSet)) : ∀ (fs : List (List Char)) (trees : List Tree)
    (ps ds : List (Name × CSet)), Api.parseAll E C true ctxSets fs = .ok (trees, ps, ds) →
    (∀ t ∈ trees, (∃ cs, Api.parseOne E C true cs = .ok t) ∧ (∀ w ∈ wildLabels t, ∃ s, (w, s) ∈ ps) ∧
      (∀ d ∈ domLabels t, ∃ s, (d, s) ∈ ds)) ∧
    (∀ e ∈ ps, e ∈ ctxSets ∧ ∃ t ∈ trees, e.1 ∈ wildLabels t) ∧ (∀ e ∈ ds, e ∈ ctxSets) := by
  intro fs
  induction fs with
  | nil =>
    intro trees ps ds h
    simp only [Api.parseAll, Except.ok.injEq, Prod.mk.injEq] at h
    obtain ⟨rfl, rfl, rfl⟩ := h
    simp
  | cons f fs ih =>
    intro trees ps ds h
    simp only [Api.parseAll] at h
    cases hp : Api.parseOne E C true f with
    | error e => simp [hp] at h
    | ok t0 =>
      simp only [hp, if_true] at h
      cases hwc : t0.wildCards ([], []) with
      | mk wl dl =>
      simp only [hwc] at h
      cases h1 : Api.lookupAll ctxSets wl with
      | none => simp [h1] at h
      | some p =>
        cases h2 : Api.lookupAll ctxSets dl with
        | none => simp [h1, h2] at h
        | some d =>
          simp only [h1, h2] at h
          cases hrest : Api.parseAll E C true ctxSets fs with
          | error e => simp [hrest] at h
          | ok r =>
            obtain ⟨ts, p', d'⟩ := r
            simp only [hrest, Except.ok.injEq, Prod.mk.injEq] at h
            obtain ⟨rfl, rfl, rfl⟩ := h
            obtain ⟨i1, i2, i3⟩ := ih ts p' d' hrest
            have hm := mem_wildCards t0 ([], [])
            rw [hwc] at hm
            refine ⟨?_, ?_, ?_⟩
            · intro t ht
              simp only [List.mem_cons] at ht
              rcases ht with rfl | ht
              · refine ⟨⟨f, hp⟩, ?_, ?_⟩
                · intro w hw
                  obtain ⟨s, hs⟩ := lookupAll_spec ctxSets wl p h1 w ((hm.1 w).mpr (Or.inr hw))
                  exact ⟨s, by simp [hs]⟩
                · intro dd hdd
                  obtain ⟨s, hs⟩ := lookupAll_spec ctxSets dl d h2 dd ((hm.2 dd).mpr (Or.inr hdd))
                  exact ⟨s, by simp [hs]⟩
              · obtain ⟨a, b, c⟩ := i1 t ht
                refine ⟨a, ?_, ?_⟩
                · intro w hw; obtain ⟨s, hs⟩ := b w hw; exact ⟨s, by simp [hs]⟩
                · intro dd hdd; obtain ⟨s, hs⟩ := c dd hdd; exact ⟨s, by simp [hs]⟩
            · intro e he
              simp only [List.mem_append] at he
              rcases he with he | he
              · have := lookupAll_mem ctxSets wl p h1 e he
                refine ⟨this.2, t0, by simp, ?_⟩
                rcases (hm.1 e.1).mp this.1 with h' | h'
                · simp at h'
                · exact h'
              · obtain ⟨a, t, ht, b⟩ := i2 e he
                exact ⟨a, t, by simp [ht], b⟩
            · intro e he
              simp only [List.mem_append] at he
              rcases he with he | he
              · exact (lookupAll_mem ctxSets dl d h2 e he).2
              · exact i3 e he

/-- a context set that does not depend on the variable slots (what the API documents for wild-card / domain sets) -/
def SetSC (s : CSet) : Prop := ∀ q q' : Point, q.s = q'.s → q.c = q'.c → s q = s q'

variable {E}
variable (hE : EnvOK E) (hG : GraphWF E.G) (hA : C12.GraphAsync E.G)
include hE hG hA

/-- END TO END, `model_check_multiple_extended_formulae_dirty` on arbitrary input strings and an arbitrary context of
variable-independent sets: the outcome is the parse/validation error (including "no context set for a label"), or
exactly the satisfaction sets of the preprocessed formulae in the context; the evaluator never panics. -/
theorem extendedDirty_correct (ctxSets : List (Name × CSet)) (hctx : ∀ e ∈ ctxSets, SetSC e.2) (fs : List (List Char)) :
    (∃ e, Api.parseAll E C true ctxSets fs = .error e ∧ Api.extendedDirty E C E.G.unit0 ctxSets fs = .userError e) ∨
    (∃ trees ps ds rs, Api.parseAll E C true ctxSets fs = .ok (trees, ps, ds) ∧
      Api.extendedDirty E C E.G.unit0 ctxSets fs = .ok rs ∧ rs.length = trees.length ∧
      ∀ i (hi : i < trees.length) (hi' : i < rs.length), ∀ p ∈ E.pts,
        (rs[i] p = true ↔ (E.G.unit0 p = true ∧
          sat E.G (C04.ctxOf (Api.dedupNames ps) (Api.dedupNames ds)) trees[i] p))) := by
  cases hp : Api.parseAll E C true ctxSets fs with
  | error e => left; exact ⟨e, rfl, by simp [Api.extendedDirty, hp]⟩
  | ok r =>
    obtain ⟨trees, ps, ds⟩ := r
    right
    obtain ⟨i1, i2, i3⟩ := parseAll_ext_spec E ctxSets fs trees ps ds hp
    -- the evaluation context and its properties
    have hsetW : ∀ w a, (C04.ctxOf (Api.dedupNames ps) (Api.dedupNames ds)).wild w = some a → SetSC a := by
      intro w a h
      have : (w, a) ∈ Api.dedupNames ps := C04.lookup_mem_gen _ h
      exact hctx _ (i2 _ (dedupNames_sub ps _ this)).1
    have hsetD : ∀ l a, (C04.ctxOf (Api.dedupNames ps) (Api.dedupNames ds)).dom l = some a → SetSC a := by
      intro l a h
      have : (l, a) ∈ Api.dedupNames ds := C04.lookup_mem_gen _ h
      exact hctx _ (i3 _ (dedupNames_sub ds _ this))
    have hSC : CtxSC (C04.ctxOf (Api.dedupNames ps) (Api.dedupNames ds)) :=
      ⟨fun w a h => hsetW w a h, fun l a h => hsetD l a h⟩
    have hK : CtxOK E (C04.ctxOf (Api.dedupNames ps) (Api.dedupNames ds)) :=
      ⟨fun l a h p _ i t _ => hsetD l a h _ _ rfl rfl⟩
    have hq : ∀ t ∈ trees, GoodQ C E (C04.ctxOf (Api.dedupNames ps) (Api.dedupNames ds)) E.G.unit0 t E.G.unit0 [] := by
      intro t ht
      obtain ⟨⟨cs, hcs⟩, hw, hd⟩ := i1 t ht
      apply parseOne_goodQ_ext hC E _ cs t hcs
      · rw [domsIn_iff]
        intro d hdd
        obtain ⟨s, hs⟩ := hd d hdd
        exact dedupNames_lookup ds d s hs
      · rw [wildsIn_iff]
        intro w hww
        obtain ⟨s, hs⟩ := hw w hww
        exact dedupNames_lookup ps w s hs
    have hpv : ∀ e ∈ Api.dedupNames ps, Lex.ValidId C e.1 := by
      intro e he
      obtain ⟨_, t, ht, hwl⟩ := i2 e (dedupNames_sub ps e he)
      exact wildLabels_valid t (hq t ht).valid.1 e.1 hwl
    obtain ⟨rs, hev, hlen, hall⟩ := C04.extendedDirty_sound hC hE hG hA E.G.unit0 trees ps ds hK hSC
      (fun p hp i t ht => (unitOK_unit0 E).indepFrom p hp i t (Nat.zero_le _) ht) hpv hq
    exact ⟨trees, ps, ds, rs, rfl, by simp [Api.extendedDirty, hp, hev], hlen, fun i hi hi' p hpp => hall i hi hi' p hpp⟩

end

/-! ### non-vacuity -/

/-- a two-state, one-colour toggle with the proposition `a` true in state 1 -/
def Gt : Graph :=
  { nS := 2, nC := 1, nV := 1, k := 0, valid := fun _ => true
    step := fun _ _ s => some (1 - s)
    label := fun n => if n = ['a'] then some (fun s => s == 1) else none }

theorem Gt_wf : GraphWF Gt := ⟨fun c j s t h hs => by simp [Gt] at h hs ⊢; omega⟩
theorem Gt_async : C12.GraphAsync Gt := ⟨fun c j s t h => by simp [Gt] at h; omega⟩

/-- non-vacuity of `formulaeDirty_correct`: its premises hold for the toggle and the ASCII classes, and the outcome on
the text `EF a` is a result (both states satisfy it) -/
example : ∃ rs, Api.formulaeDirty (Env.pure Gt) C06.asciiClass (Env.pure Gt).G.unit0 [['E','F',' ','a']] = .ok rs := by
  rcases formulaeDirty_correct C06.asciiClass_ok (envOK_pure Gt) Gt_wf Gt_async [['E','F',' ','a']] with ⟨e, he, _⟩ | ⟨trees, ps, ds, rs, _, h, _⟩
  · exfalso
    have hp : Api.parseAll (Env.pure Gt) C06.asciiClass false [] [['E','F',' ','a']]
        = .ok ([.un .ef (.atom (.prop ['a']))], [], []) := by rfl
    rw [hp] at he
    cases he
  · exact ⟨rs, h⟩
end Hctl
