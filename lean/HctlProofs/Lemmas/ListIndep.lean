/-
  C04 at the level of the string entry points: the set returned for a formula depends on that formula (and the
  context sets of the labels it mentions) only — not on its position, on the other formulae of the list, on
  repetitions, nor on whether it is evaluated alone.
-/
import HctlProofs.Lemmas.EntryPoints
namespace Hctl.C04
open Hctl Kripke

/-- satisfaction depends on the context only through the wild-card AND domain labels that occur -/
theorem sat_ctx_congr_local (G : Graph) (K1 K2 : SemCtx) :
    ∀ t, (∀ w ∈ wildLabels t, K1.wild w = K2.wild w) → (∀ d ∈ domLabels t, K1.dom d = K2.dom d) →
      ∀ p, (sat G K1 t p ↔ sat G K2 t p) := by
  intro t
  induction t with
  | atom a =>
    intro h _ p
    cases a with
    | wild w => simp only [sat, h w (by simp [wildLabels])]
    | _ => simp only [sat]
  | un o c ih =>
    intro h hd p
    have ih' : ∀ q, sat G K1 c q ↔ sat G K2 c q :=
      ih (by simpa [wildLabels] using h) (by simpa [domLabels] using hd)
    cases o <;> simp only [sat, ih']
  | bin o l r ihl ihr =>
    intro h hd p
    simp only [wildLabels, domLabels, List.mem_append] at h hd
    have il : ∀ q, sat G K1 l q ↔ sat G K2 l q := ihl (fun w hw => h w (Or.inl hw)) (fun w hw => hd w (Or.inl hw))
    have ir : ∀ q, sat G K1 r q ↔ sat G K2 r q := ihr (fun w hw => h w (Or.inr hw)) (fun w hw => hd w (Or.inr hw))
    cases o <;> simp only [sat, il, ir]
  | hyb o x d c ih =>
    intro h hd p
    have hin : ∀ q, inDom K1 d q ↔ inDom K2 d q := by
      intro q
      cases d with
      | none => simp [inDom]
      | some l => simp only [inDom]; rw [hd l (by simp [domLabels])]
    have ih' : ∀ q, sat G K1 c q ↔ sat G K2 c q := by
      refine ih (by simpa [wildLabels] using h) (fun l hl => hd l ?_)
      cases d <;> simp [domLabels, hl]
    cases o <;> simp only [sat, ih', hin]

variable (E : Env) (K : CharClass)

/-- the trees of a list are the trees of its members, position by position -/
theorem parseAll_get (ext : Bool) (ctxSets : List (Name × CSet)) : ∀ (fs : List (List Char)) (trees : List Tree)
    (ps ds : List (Name × CSet)), Api.parseAll E K ext ctxSets fs = .ok (trees, ps, ds) →
    trees.length = fs.length ∧ ∀ i (hi : i < fs.length) (hi' : i < trees.length), Api.parseOne E K ext fs[i] = .ok trees[i] := by
  intro fs
  induction fs with
  | nil =>
    intro trees ps ds h
    simp only [Api.parseAll, Except.ok.injEq, Prod.mk.injEq] at h
    obtain ⟨rfl, _, _⟩ := h
    simp
  | cons f fs ih =>
    intro trees ps ds h
    simp only [Api.parseAll] at h
    cases hp : Api.parseOne E K ext f with
    | error e => simp [hp] at h
    | ok t =>
      simp only [hp] at h
      split at h
      · cases h
      · rename_i p d _
        cases hr : Api.parseAll E K ext ctxSets fs with
        | error e => simp [hr] at h
        | ok r =>
          obtain ⟨ts, p', d'⟩ := r
          simp only [hr, Except.ok.injEq, Prod.mk.injEq] at h
          obtain ⟨rfl, _, _⟩ := h
          obtain ⟨h1, h2⟩ := ih ts p' d' hr
          refine ⟨by simp [h1], ?_⟩
          intro i hi hi'
          cases i with
          | zero => simpa using hp
          | succ j => simpa using h2 j (by simpa using hi) (by simpa using hi')

theorem lookupAll_val (ctxSets : List (Name × CSet)) : ∀ (ns : List Name) (l : List (Name × CSet)),
    Api.lookupAll ctxSets ns = some l → ∀ e ∈ l, ctxSets.lookup e.1 = some e.2 := by
  intro ns
  induction ns with
  | nil => intro l h e he; simp [Api.lookupAll] at h; subst h; simp at he
  | cons m ns ih =>
    intro l h e he
    simp only [Api.lookupAll] at h
    cases hm : ctxSets.lookup m with
    | none => simp [hm] at h
    | some s =>
      cases hr : Api.lookupAll ctxSets ns with
      | none => simp [hm, hr] at h
      | some rest =>
        simp only [hm, hr, Option.some.injEq] at h
        subst h
        simp only [List.mem_cons] at he
        rcases he with rfl | he
        · exact hm
        · exact ih rest hr e he

/-- every entry of the collected contexts carries the set the label has in the supplied context -/
theorem parseAll_vals (ctxSets : List (Name × CSet)) : ∀ (fs : List (List Char)) (trees : List Tree)
    (ps ds : List (Name × CSet)), Api.parseAll E K true ctxSets fs = .ok (trees, ps, ds) →
    (∀ e ∈ ps, ctxSets.lookup e.1 = some e.2) ∧ (∀ e ∈ ds, ctxSets.lookup e.1 = some e.2) := by
  intro fs
  induction fs with
  | nil =>
    intro trees ps ds h
    simp only [Api.parseAll, Except.ok.injEq, Prod.mk.injEq] at h
    obtain ⟨_, rfl, rfl⟩ := h
    simp
  | cons f fs ih =>
    intro trees ps ds h
    simp only [Api.parseAll] at h
    cases hp : Api.parseOne E K true f with
    | error e => simp [hp] at h
    | ok t =>
      simp only [hp, if_true] at h
      cases hlp : Api.lookupAll ctxSets (t.wildCards ([], [])).1 with
      | none => simp [hlp] at h
      | some p =>
        cases hld : Api.lookupAll ctxSets (t.wildCards ([], [])).2 with
        | none => simp [hlp, hld] at h
        | some d =>
          simp only [hlp, hld] at h
          cases hr : Api.parseAll E K true ctxSets fs with
          | error e => simp [hr] at h
          | ok r =>
            obtain ⟨ts, p', d'⟩ := r
            simp only [hr, Except.ok.injEq, Prod.mk.injEq] at h
            obtain ⟨_, rfl, rfl⟩ := h
            obtain ⟨h1, h2⟩ := ih ts p' d' hr
            constructor
            · intro e he
              rcases List.mem_append.mp he with he | he
              · exact lookupAll_val ctxSets _ p hlp e he
              · exact h1 e he
            · intro e he
              rcases List.mem_append.mp he with he | he
              · exact lookupAll_val ctxSets _ d hld e he
              · exact h2 e he

/-- on the labels the collected context knows, it agrees with the supplied context -/
theorem dedup_lookup_eq (ctxSets l : List (Name × CSet)) (hv : ∀ e ∈ l, ctxSets.lookup e.1 = some e.2) (n : Name)
    (a : CSet) (h : (Api.dedupNames l).lookup n = some a) : ctxSets.lookup n = some a := by
  have := lookup_mem_gen _ h
  exact hv _ (dedupNames_sub l _ this)

end Hctl.C04

namespace Hctl.C04
open Hctl Kripke

section main2
variable {C : CharClass} (hC : Lex.CharsOK C) {E : Env} (hE : EnvOK E) (hG : GraphWF E.G) (hA : C12.GraphAsync E.G)
include hC hE hG hA

/-- `model_check_multiple_formulae_dirty`: the set at position `i` of one list equals (on every point of the graph) the
set at position `j` of ANY other list that has the same string there — so reordering or repeating formulae permutes /
repeats the results, and a formula evaluated alone (`gs = [f]`) gets the set it gets inside any list. -/
theorem formulae_position_independent (fs gs : List (List Char)) (rs rs' : List CSet)
    (h1 : Api.formulaeDirty E C E.G.unit0 fs = .ok rs) (h2 : Api.formulaeDirty E C E.G.unit0 gs = .ok rs')
    (i j : Nat) (hi : i < fs.length) (hj : j < gs.length) (heq : fs[i] = gs[j]) :
    ∃ (hi' : i < rs.length) (hj' : j < rs'.length), EqOn E.pts rs[i] rs'[j] := by
  rcases formulaeDirty_correct hC hE hG hA fs with ⟨e, _, h⟩ | ⟨t1, p1, d1, r1, hp1, hr1, hl1, ha1⟩
  · rw [h] at h1; cases h1
  rcases formulaeDirty_correct hC hE hG hA gs with ⟨e, _, h⟩ | ⟨t2, p2, d2, r2, hp2, hr2, hl2, ha2⟩
  · rw [h] at h2; cases h2
  rw [hr1] at h1; rw [hr2] at h2
  simp only [Outcome.ok.injEq] at h1 h2
  subst h1 h2
  obtain ⟨g1, g2⟩ := parseAll_get E C false [] fs t1 p1 d1 hp1
  obtain ⟨g3, g4⟩ := parseAll_get E C false [] gs t2 p2 d2 hp2
  have hi1 : i < t1.length := by omega
  have hj2 : j < t2.length := by omega
  have ht : t1[i] = t2[j] := by
    have a := g2 i hi hi1
    have b := g4 j hj hj2
    rw [heq, b] at a
    simpa using a.symm
  refine ⟨by omega, by omega, ?_⟩
  intro p hp
  have a := ha1 i hi1 (by omega) p hp
  have b := ha2 j hj2 (by omega) p hp
  rw [ht] at a
  rw [Bool.eq_iff_iff, a, b]

/-- the same for `model_check_multiple_extended_formulae_dirty` with one context of variable-independent sets -/
theorem extended_position_independent (ctxSets : List (Name × CSet)) (hctx : ∀ e ∈ ctxSets, SetSC e.2)
    (fs gs : List (List Char)) (rs rs' : List CSet)
    (h1 : Api.extendedDirty E C E.G.unit0 ctxSets fs = .ok rs) (h2 : Api.extendedDirty E C E.G.unit0 ctxSets gs = .ok rs')
    (i j : Nat) (hi : i < fs.length) (hj : j < gs.length) (heq : fs[i] = gs[j]) :
    ∃ (hi' : i < rs.length) (hj' : j < rs'.length), EqOn E.pts rs[i] rs'[j] := by
  rcases extendedDirty_correct hC hE hG hA ctxSets hctx fs with ⟨e, _, h⟩ | ⟨t1, p1, d1, r1, hp1, hr1, hl1, ha1⟩
  · rw [h] at h1; cases h1
  rcases extendedDirty_correct hC hE hG hA ctxSets hctx gs with ⟨e, _, h⟩ | ⟨t2, p2, d2, r2, hp2, hr2, hl2, ha2⟩
  · rw [h] at h2; cases h2
  rw [hr1] at h1; rw [hr2] at h2
  simp only [Outcome.ok.injEq] at h1 h2
  subst h1 h2
  obtain ⟨g1, g2⟩ := parseAll_get E C true ctxSets fs t1 p1 d1 hp1
  obtain ⟨g3, g4⟩ := parseAll_get E C true ctxSets gs t2 p2 d2 hp2
  have hi1 : i < t1.length := by omega
  have hj2 : j < t2.length := by omega
  have ht : t1[i] = t2[j] := by
    have a := g2 i hi hi1
    have b := g4 j hj hj2
    rw [heq, b] at a
    simpa using a.symm
  obtain ⟨v1p, v1d⟩ := parseAll_vals E C ctxSets fs t1 p1 d1 hp1
  obtain ⟨v2p, v2d⟩ := parseAll_vals E C ctxSets gs t2 p2 d2 hp2
  obtain ⟨s1, _, _⟩ := parseAll_ext_spec E ctxSets fs t1 p1 d1 hp1
  obtain ⟨s2, _, _⟩ := parseAll_ext_spec E ctxSets gs t2 p2 d2 hp2
  obtain ⟨_, w1, dd1⟩ := s1 t1[i] (List.getElem_mem hi1)
  obtain ⟨_, w2, dd2⟩ := s2 t2[j] (List.getElem_mem hj2)
  refine ⟨by omega, by omega, ?_⟩
  intro p hp
  have a := ha1 i hi1 (by omega) p hp
  have b := ha2 j hj2 (by omega) p hp
  rw [ht] at a w1 dd1
  have hcongr := sat_ctx_congr_local E.G (ctxOf (Api.dedupNames p1) (Api.dedupNames d1))
    (ctxOf (Api.dedupNames p2) (Api.dedupNames d2)) t2[j]
    (by
      intro w hw
      obtain ⟨x1, hx1⟩ := w1 w hw
      obtain ⟨x2, hx2⟩ := w2 w hw
      obtain ⟨a1, ha1'⟩ := dedupNames_lookup p1 w x1 hx1
      obtain ⟨a2, ha2'⟩ := dedupNames_lookup p2 w x2 hx2
      have e1 := dedup_lookup_eq ctxSets p1 v1p w a1 ha1'
      have e2 := dedup_lookup_eq ctxSets p2 v2p w a2 ha2'
      show (Api.dedupNames p1).lookup w = (Api.dedupNames p2).lookup w
      rw [ha1', ha2']; rw [e1] at e2; exact e2)
    (by
      intro w hw
      obtain ⟨x1, hx1⟩ := dd1 w hw
      obtain ⟨x2, hx2⟩ := dd2 w hw
      obtain ⟨a1, ha1'⟩ := dedupNames_lookup d1 w x1 hx1
      obtain ⟨a2, ha2'⟩ := dedupNames_lookup d2 w x2 hx2
      have e1 := dedup_lookup_eq ctxSets d1 v1d w a1 ha1'
      have e2 := dedup_lookup_eq ctxSets d2 v2d w a2 ha2'
      show (Api.dedupNames d1).lookup w = (Api.dedupNames d2).lookup w
      rw [ha1', ha2']; rw [e1] at e2; exact e2)
    p
  rw [Bool.eq_iff_iff, a, b, hcongr]

end main2
end Hctl.C04
