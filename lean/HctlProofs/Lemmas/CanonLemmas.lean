/-
  Canonisation at the tree level: the renaming is injective, canonical names are fresh and ordered.
-/
import HctlModel.Dups
import Std.Data.String.ToNat
namespace Hctl

theorem canonName_inj {a b : Nat} (h : canonName a = canonName b) : a = b := by
  simp only [canonName, List.append_cancel_left_eq] at h
  have : Nat.repr a = Nat.repr b := by
    have h' := congrArg String.ofList h
    rw [String.ofList_toList, String.ofList_toList] at h'
    exact h'
  exact Nat.repr_injective this

/-- state invariant of the canonisation pass: every canonical name in the map is `var j` with `j < stack`,
and different variables have different canonical names -/
structure CanonInv (st : CanonT) : Prop where
  bound : ∀ x c, (x, c) ∈ st.map → ∃ j, j < st.stack ∧ c = canonName j
  inj : ∀ x y c, (x, c) ∈ st.map → (y, c) ∈ st.map → x = y
  keys : ∀ x c c', (x, c) ∈ st.map → (x, c') ∈ st.map → c = c'

theorem mem_mapInsert {k v x c : Name} {m : List (Name × Name)} :
    (x, c) ∈ mapInsert k v m ↔ (x = k ∧ c = v) ∨ (x ≠ k ∧ (x, c) ∈ m) := by
  simp only [mapInsert, List.mem_cons, Prod.mk.injEq, List.mem_filter, bne_iff_ne, ne_eq]
  constructor
  · rintro (⟨h1, h2⟩ | ⟨h1, h2⟩)
    · exact Or.inl ⟨h1, h2⟩
    · exact Or.inr ⟨h2, h1⟩
  · rintro (⟨h1, h2⟩ | ⟨h1, h2⟩)
    · exact Or.inl ⟨h1, h2⟩
    · exact Or.inr ⟨h2, h1⟩

theorem CanonInv.init : CanonInv {} := ⟨fun _ _ h => by simp at h, fun _ _ _ h => by simp at h, fun _ _ _ h => by simp at h⟩

/-- inserting a fresh canonical name keeps the invariant -/
theorem CanonInv.insert {st : CanonT} (h : CanonInv st) (v : Name) :
    CanonInv { map := mapInsert v (canonName st.stack) st.map, stack := st.stack + 1 } := by
  refine ⟨?_, ?_, ?_⟩
  · intro x c hm
    rcases mem_mapInsert.mp hm with ⟨_, rfl⟩ | ⟨_, hm'⟩
    · exact ⟨st.stack, Nat.lt_succ_self _, rfl⟩
    · obtain ⟨j, hj, hc⟩ := h.bound x c hm'
      exact ⟨j, Nat.lt_succ_of_lt hj, hc⟩
  · intro x y c hx hy
    rcases mem_mapInsert.mp hx with ⟨rfl, rfl⟩ | ⟨hxk, hx'⟩
    · rcases mem_mapInsert.mp hy with ⟨rfl, _⟩ | ⟨_, hy'⟩
      · rfl
      · obtain ⟨j, hj, hc⟩ := h.bound y _ hy'
        have := canonName_inj hc
        omega
    · rcases mem_mapInsert.mp hy with ⟨rfl, rfl⟩ | ⟨_, hy'⟩
      · obtain ⟨j, hj, hc⟩ := h.bound x _ hx'
        have := canonName_inj hc
        omega
      · exact h.inj x y c hx' hy'
  · intro x c c' hx hx'
    rcases mem_mapInsert.mp hx with ⟨rfl, rfl⟩ | ⟨hxk, hm⟩
    · rcases mem_mapInsert.mp hx' with ⟨_, rfl⟩ | ⟨hne, _⟩
      · rfl
      · exact absurd rfl hne
    · rcases mem_mapInsert.mp hx' with ⟨rfl, _⟩ | ⟨_, hm'⟩
      · exact absurd rfl hxk
      · exact h.keys x c c' hm hm'

theorem canonVar_inv {st : CanonT} (h : CanonInv st) (v : Name) : CanonInv (canonVar v st).2 := by
  unfold canonVar
  cases st.map.lookup v with
  | some cn => exact h
  | none => exact h.insert v

theorem canonTreeAux_inv : ∀ (t : Tree) (st : CanonT), CanonInv st → CanonInv (canonTreeAux t st).2 := by
  intro t
  induction t with
  | atom a =>
    intro st h
    cases a with
    | var v => simpa [canonTreeAux] using canonVar_inv h v
    | _ => simpa [canonTreeAux] using h
  | un o c ih => intro st h; simpa [canonTreeAux] using ih st h
  | bin o l r ihl ihr =>
    intro st h
    simpa [canonTreeAux] using ihr _ (ihl st h)
  | hyb o v d c ih =>
    intro st h
    simp only [canonTreeAux]
    by_cases hj : o = .jump
    · simpa [hj] using ih _ (canonVar_inv h v)
    · simpa [hj] using ih _ (h.insert v)

end Hctl
