/-
  Line-protocol driver: runs the executable model on the requests produced by the Rust harness.
  One request per line on stdin, one reply per line on stdout.
-/
import HctlModel.Proto
import HctlModel.EvalProto
import HctlModel.GlueProto
open Hctl Hctl.Proto

open Hctl.EvalProto (classOf decChars)

def subtreeInfo (t : Tree) : String :=
  " ".intercalate (t.subtrees.map (fun s => s!"{s.height}:{encName s.render}"))

def nodeInfo (t : Tree) : String :=
  -- stored fields of the nodes built through the `mk_*` constructors
  let rec go : Node → List String
    | n@(.atom ..) => [s!"{n.height}:{encName n.str}"]
    | n@(.un _ _ _ c) => s!"{n.height}:{encName n.str}" :: go c
    | n@(.bin _ _ _ l r) => s!"{n.height}:{encName n.str}" :: (go l ++ go r)
    | n@(.hyb _ _ _ _ _ c) => s!"{n.height}:{encName n.str}" :: go c
  " ".intercalate (go t.build)

def encRen (m : List (Name × Name)) : String :=
  " ".intercalate (m.map (fun (k, v) => s!"{encName k}={encName v}"))

def encKey (k : Key) : String :=
  encName k.1 ++ "[" ++ ",".intercalate (k.2.map (fun (v, d) => s!"{encName v}={encOpt d}")) ++ "]"

def handle (line : String) : String :=
  match words line with
  | ["lex", ext, chars] =>
    let (cs, table) := decChars chars
    match Lex.tokenize (classOf table) (ext == "1") cs with
    | .ok ts => "ok " ++ encToks ts
    | .error .lex => "err"
    | .error .fuel => "fuel"
  | "parse" :: rest =>
    match decToks rest with
    | some (ts, []) =>
      match parseToks ts with
      | .ok t => s!"ok {encTree t} | {subtreeInfo t} | {nodeInfo t}"
      | .error .bad => "err"
      | .error .fuel => "fuel"
    | _ => "bad-request"
  | "print" :: rest =>
    match decTree rest with
    | some (t, []) => s!"| {subtreeInfo t} | {nodeInfo t}"
    | _ => "bad-request"
  | "ren" :: vars :: rest =>
    match decTree rest with
    | some (t, []) =>
      let netVars := if vars == "-" then [] else (vars.splitOn ",").map decName
      match rename (fun n => netVars.contains n) t with
      | .ok t' => s!"ok {encTree t'} nq={t'.numQuantVars} depth={t'.depth}"
      | .error .free => "err free"
      | .error .requant => "err requant"
      | .error .badprop => "err badprop"
    | _ => "bad-request"
  | ["canon", s] =>
    let (c, m) := canonChars (decName s)
    s!"{encName c} set {encRen m}"
  | "canont" :: rest =>
    match decTree rest with
    | some (t, []) =>
      let (c, m) := canonTree t
      s!"{encName c.render} set {encRen m}"
    | _ => "bad-request"
  | "dups" :: n :: rest =>
    let rec go : Nat → List String → List Tree → Option (List Tree)
      | 0, [], acc => some acc.reverse
      | 0, _, _ => none
      | k+1, r, acc => match decTree r with
        | some (t, r') => go k r' (t :: acc)
        | none => none
    match go n.toNat! rest [] with
    | some ts =>
      let d := markDups ts
      "set " ++ " ".intercalate (d.map (fun (k, c) => s!"{encKey k}:{c}"))
    | none => "bad-request"
  | _ => "bad-request"

partial def loop (h : IO.FS.Stream) (st : EvalProto.DriverState) : IO Unit := do
  let line ← h.getLine
  if line.isEmpty then return ()
  let l := line.trimAscii.toString
  if l.isEmpty then
    IO.println ""
    loop h st
  else
    match EvalProto.handle? st l with
    | some (st', out) =>
      IO.println out
      (← IO.getStdout).flush
      loop h st'
    | none =>
      match Hctl.GlueProto.handle? l with
      | some out => IO.println out
      | none => IO.println (handle l)
      loop h st

def main : IO Unit := do loop (← IO.getStdin) {}
